"""
C19 - Node: remote events run once and return their result; peers cannot harm the loop.

Correspondence (B): real `circuits.node.protocol.Protocol` instances wired back to back
(captured `write` events are re-cut and handed to the peer's `add_buffer`), real `Manager`s
flushed after every read, `load_event` / `dump_event` / `bytes.split` / the `~` escape, vs.
CV.Model.Node (`recv`, `send`, `poll`, `loadEvent`, `dumpEvent`, `splitD`, `escTilde`).
`json.loads` (+ UTF-8 decoding) is the model's oracle: the harness fills the driver's table
from the real `json.loads` for every piece the model can ask about.

Spec on impl (C): exactly-once dispatch per sent id (`onceOk`), field preservation
(`sameEvent`), self-delimiting packets (`wireOk`) - evaluated by the Lean driver on the
implementation's observations; answer routing, firewall silence, loop liveness and
"critical attributes as locally constructed" are plain comparisons made here.

Two-party composition (case kind `two`): `cvdriver node2` executes CV.Node.n2_stepK / n2_step (CV/Model/NodeTwo.lean,
the definition the once_and_back theorems are about) on a scenario - calls, schedule with cut points for both byte
streams, handler returns / raises, firewalls; the same scenario runs on real endpoints (bare Protocols, or
Node + Server + Client components with the harness as the network) and the observation streams are compared step by
step: events executed on B, bytes per direction, answers accepted by A, what each waiting caller is resumed with,
residue.  Judged on the implementation: exactly once, in order, never when the firewall rejects, own result and
error flag to the caller of that call on that connection, one result packet per call id, answers on the calling
connection only.

Firewalls: the verdict is judged per event, for predicates on name / channels and for rules on
args, kwargs, an attribute of the event and a call counter (see "firewall predicates" below):
a rejected event is never written (send) / never dispatched and answered with the empty result
(receive); an allowed one is written / dispatched exactly once - also when events of one
(name, channels) with different verdicts follow each other on one connection, in any order.
The model evaluates the same rules (CV.Drv.Rule); with a driver built before they existed the
sessions that use rules are judged by the oracle only.
"""
import ast
import inspect
import itertools
import json
import math

from framework import cuts_to_segments, hx, sx, unhx

DELIM = b'~~~'
PEER = {0: 2, 2: 0, 1: 3, 3: 1}      # P0,P1 live on manager 0 (server mode); P2, P3 are clients
HOST = {0: 0, 1: 0, 2: 1, 3: 2}
BASE_EXTRA = {'node_call_id', 'node_sock', 'success_channels'}

# attributes of an event that circuits.core reads while dispatching (baseline; the live list
# is extracted from manager.py / values.py by `critical_names`)
CRITICAL_BASE = ['args', 'kwargs', 'name', 'channels', 'value', 'handler', 'stopped', 'cancelled', 'complete',
                 'alert_done', 'waitingHandlers', 'success', 'failure', 'notify', 'parent', 'cause', 'effects',
                 'success_channels', 'complete_channels', 'child', 'node_call_id', 'node_sock',
                 'node_without_result']


# ---------------------------------------------------------------------------------------
# JSON trees <-> driver tokens
# ---------------------------------------------------------------------------------------

class Unsupported(Exception):
    pass


def jt(x, sort=False):
    """python JSON value -> prefix-notation tokens"""
    if x is None:
        return 'N'
    if x is True:
        return 'T'
    if x is False:
        return 'F'
    if isinstance(x, (int, float)):
        r = repr(x)
        nat = '-'
        if isinstance(x, int):
            if x >= 0:
                nat = str(x)
        elif math.isfinite(x) and x >= 0 and x == int(x):
            nat = str(int(x))
        return f"#{sx(r)}:{nat}:{1 if x == 0 else 0}"
    if isinstance(x, str):
        try:
            x.encode('utf-8')
        except UnicodeEncodeError:
            raise Unsupported('lone surrogate')
        return 'S' + sx(x)
    if isinstance(x, (list, tuple)):
        return ' '.join([f'A{len(x)}'] + [jt(v, sort) for v in x])
    if isinstance(x, dict):
        items = sorted(x.items()) if sort else list(x.items())
        out = [f'O{len(items)}']
        for k, v in items:
            if not isinstance(k, str):
                raise Unsupported('non-str key')
            out.append(jt(k))
            out.append(jt(v, sort))
        return ' '.join(out)
    raise Unsupported(type(x).__name__)


def jdec_tokens(ts, i=0):
    t = ts[i]
    if t == 'N':
        return None, i + 1
    if t == 'T':
        return True, i + 1
    if t == 'F':
        return False, i + 1
    c, body = t[0], t[1:]
    if c == 'S':
        return unhx(body).decode('utf-8'), i + 1
    if c == '#':
        r = unhx(body.split(':')[0]).decode()
        try:
            return int(r), i + 1
        except ValueError:
            return float(r), i + 1
    if c == 'A':
        out = []
        i += 1
        for _ in range(int(body)):
            v, i = jdec_tokens(ts, i)
            out.append(v)
        return out, i
    if c == 'O':
        out = {}
        i += 1
        for _ in range(int(body)):
            k, i = jdec_tokens(ts, i)
            v, i = jdec_tokens(ts, i)
            out[k] = v
        return out, i
    raise ValueError(t)


def jdec(s):
    v, i = jdec_tokens(s.split(), 0)
    return v


def canon(x):
    """canonical text of a python JSON value (dict order ignored, types kept)"""
    return jt(x, sort=True)


def ev_to_j(ev):
    return {'name': ev['name'], 'args': list(ev['args']), 'kwargs': dict(ev['kwargs']),
            'success': bool(ev['success']), 'failure': bool(ev['failure']), 'notify': bool(ev['notify']),
            'channels': list(ev['channels']), 'attrs': dict(ev.get('attrs', {}))}


# ---------------------------------------------------------------------------------------
# oracle: json.loads on pieces
# ---------------------------------------------------------------------------------------

def oracle_line(piece):
    try:
        j = json.loads(piece.decode('utf-8'))
    except ValueError:
        return f'know {hx(piece)} V'
    except Exception:            # RecursionError on absurd nesting
        return f'know {hx(piece)} R'
    try:
        return f'know {hx(piece)} J {jt(j)}'
    except (Unsupported, RecursionError):
        return None


def candidate_pieces(total, seg_ends):
    """oracle lines for every piece the model can ask about.  A piece starts at 0, after a delimiter, or at a
    read boundary at which the buffer was emptied (the piece ending there parsed or raised); it ends at the next
    delimiter or at a read boundary before it (+2: a partial delimiter).  Over-approximation only: a piece that is
    missing makes the driver answer `need`, which is served afterwards."""
    import bisect
    ends = sorted(set(seg_ends) | {len(total)})
    starts = [0]
    i = total.find(DELIM)
    while i >= 0:
        starts.append(i + 3)
        i = total.find(DELIM, i + 1)
    lines = {}
    done = set()
    while starts:
        s = starts.pop()
        if s in done or s > len(total):
            continue
        done.add(s)
        d = total.find(DELIM, s)
        pieces = []
        if d >= 0:
            pieces.append((total[s:d], None))
        hi = len(total) if d < 0 else d + 2
        for e in ends[bisect.bisect_left(ends, s):bisect.bisect_right(ends, hi)]:
            pieces.append((total[s:e], e))
        for piece, e in pieces:
            if piece not in lines:
                lines[piece] = oracle_line(piece)
            ln = lines[piece]
            if e is not None and ln is not None and not ln.endswith(' V'):
                starts.append(e)
    if b'' not in lines:
        lines[b''] = oracle_line(b'')
    return lines


# ---------------------------------------------------------------------------------------
# implementation side
# ---------------------------------------------------------------------------------------

def make_app_classes():
    from circuits import Component, handler

    class App(Component):
        channel = 'app'

        def init(self):
            self.writes = []     # (sock or None, bytes)
            self.log = []        # received remote calls
            self.seen = []       # events already logged (identity)

        @handler('write', channel='*', priority=50)
        def _on_write(self, *a):
            self.writes.append(a)

        @handler(channel='*', priority=1000)
        def _on_any(self, event, *args, **kwargs):
            d = event.__dict__
            if 'node_call_id' in d and not any(event is x for x in self.seen):
                self.seen.append(event)
                self.log.append(event)
                if event.name.startswith('boom'):
                    raise RuntimeError('handler failed')
                return ['R', event.name, list(args), dict(kwargs)]
            return None

    return App


# ---------------------------------------------------------------------------------------
# firewall predicates
#
# a firewall spec is [blocked names, blocked channel strings] or [names, chans, rules]; every rule must allow:
#   {'k': 'le', 'sel': S, 'n': N}      allowed iff the selected value is a natural number <= N
#   {'k': 'eq', 'sel': S, 'v': STR}    allowed iff the selected value is the string STR
#   {'k': 'ni', 'sel': S, 'ns': [..]}  rejected iff the selected value is a natural number in ns
#   {'k': 'nth', 'n': N, 'phase': F}   stateful: of the events shown to this firewall, number F+1, F+1+N, F+1+2N ...
#                                      are rejected (a rate limit); asking twice about the same event object
#                                      does not count twice
# S = ['a', i] (positional argument i) | ['k', key] (keyword argument) | ['t', name] (attribute of the event).
# The Lean driver evaluates le / eq / ni itself (CV.Drv.Fw.ok); `nth` is turned into the `ni` rule it amounts to
# on the session at hand (`resolve_fw`: every event of such a session carries a unique number as args[0] and a
# connection is FIFO, so "the k-th event shown to the firewall" is a function of the event).
# ---------------------------------------------------------------------------------------

_MISSING = object()


def nat_of(x):
    """the natural number a JSON value is, or None (same rule as the `nat` field of the driver's number token)"""
    if isinstance(x, bool):
        return None
    if isinstance(x, int):
        return x if x >= 0 else None
    if isinstance(x, float) and math.isfinite(x) and x >= 0 and x == int(x):
        return int(x)
    return None


def fw_parts(spec):
    names, chans = spec[0], spec[1]
    rules = spec[2] if len(spec) > 2 else []
    return list(names), list(chans), list(rules)


def sel_get(event, sel):
    kind, key = sel
    if kind == 'a':
        return event.args[key] if 0 <= key < len(event.args) else _MISSING
    if kind == 'k':
        return event.kwargs.get(key, _MISSING)
    return getattr(event, key, _MISSING)


def rule_ok(rule, event):
    """pure rules only"""
    v = sel_get(event, rule['sel'])
    k = rule['k']
    if k == 'le':
        n = nat_of(v)
        return n is not None and n <= rule['n']
    if k == 'eq':
        return isinstance(v, str) and v == rule['v']
    if k == 'ni':
        n = nat_of(v)
        return not (n is not None and n in rule['ns'])
    raise ValueError(k)


def base_ok(names, chans, event):
    return event.name not in names and not any(isinstance(c, str) and c in chans for c in event.channels)


def make_pred(spec):
    """the real firewall callable; every part is evaluated at every call (no short circuit), so that the
    counter of an `nth` rule counts every event the firewall is shown"""
    names, chans, rules = fw_parts(spec)
    shown = []          # event objects (kept alive: identity is the key)
    verdicts = []

    def pred(event, sock):
        for e, v in zip(shown, verdicts):
            if e is event:
                return v
        k = len(shown)
        oks = [base_ok(names, chans, event)]
        for r in rules:
            if r['k'] == 'nth':
                oks.append(k % r['n'] != r['phase'])
            else:
                oks.append(rule_ok(r, event))
        v = all(oks)
        shown.append(event)
        verdicts.append(v)
        return v
    pred.shown = shown
    return pred


def pure_pred(fwp, p, side):
    """verdict of the (resolved) firewall of protocol p as a function of the event; `why` names the part that rejects"""
    f = fwp.get(str(p))
    if not f:
        return lambda event: (True, None)
    names, chans, rules = fw_parts(f[side])

    def pred(event):
        if not base_ok(names, chans, event):
            return False, 'name-or-channel'
        for r in rules:
            if not rule_ok(r, event):
                return False, r.get('dep') or {'a': 'args', 'k': 'kwargs', 't': 'attribute'}[r['sel'][0]]
        return True, None
    return pred


def fw_has_rules(fw):
    return any(fw_parts(f[side])[2] for f in fw.values() for side in ('send', 'recv'))


def resolve_fw(case):
    """the firewalls of a session as pure predicates: `nth` rules become the `ni` rule they amount to"""
    fw = case.get('fw', {}) or {}
    out = {k: {side: list(fw_parts(f[side])) for side in ('send', 'recv')} for k, f in fw.items() if f}
    if not any(r['k'] == 'nth' for f in out.values() for side in f for r in f[side][2]):
        return out
    if case.get('hostile'):
        raise Unsupported('nth firewall in a hostile session')

    def seq(spec):
        n = nat_of(spec['args'][0]) if spec['args'] else None
        if n is None or {'cls', '_name', 'value'} & set(spec['kwargs']):
            raise Unsupported('nth firewall needs numbered plain events')
        return n

    def resolved(rules, events):
        res = []
        for r in rules:
            if r['k'] == 'nth':
                seqs = [seq(e) for e in events]
                if len(set(seqs)) != len(seqs):
                    raise Unsupported('nth firewall needs distinct numbers')
                res.append({'k': 'ni', 'sel': ['a', 0], 'dep': 'call-counter',
                            'ns': [x for k, x in enumerate(seqs) if k % r['n'] == r['phase']]})
            else:
                res.append(r)
        return res
    # send side first: the k-th event handed to send(); what passes arrives in that order at the peer
    for p in range(4):
        f = out.get(str(p))
        if f:
            f['send'][2] = resolved(f['send'][2], [st[2] for st in case['steps'] if st[0] == 'send' and st[1] == p])
    for p in range(4):
        q = PEER[p]
        f = out.get(str(q))
        if f and any(r['k'] == 'nth' for r in f['recv'][2]):
            sp = pure_pred(out, p, 'send')
            arriving = [st[2] for st in case['steps'] if st[0] == 'send' and st[1] == p and sp(make_event(st[2]))[0]]
            f['recv'][2] = resolved(f['recv'][2], arriving)
    return out


def sel_token(sel):
    kind, key = sel
    return f'a{key}' if kind == 'a' else kind + sx(key)


def rule_token(r):
    if r['k'] == 'le':
        return f"le:{sel_token(r['sel'])}:{r['n']}"
    if r['k'] == 'eq':
        return f"eq:{sel_token(r['sel'])}:{sx(r['v'])}"
    if r['k'] == 'ni':
        return f"ni:{sel_token(r['sel'])}:{','.join(map(str, r['ns'])) or '-'}"
    raise ValueError(r['k'])


class World:
    """manager 0 hosts P0, P1 (server mode, socks 'S0','S1'); P2 and P3 are clients on their own managers"""

    def __init__(self, fw, app_cls=None):
        from circuits import Manager
        from circuits.node.protocol import Protocol
        App = app_cls or make_app_classes()
        self.managers = [Manager(), Manager(), Manager()]
        self.apps = [App().register(m) for m in self.managers]
        self.fw = fw
        self.protos = {}
        for p in range(4):
            kw = {}
            f = fw.get(str(p))
            if f:
                kw['send_event_firewall'] = self._pred(f['send'])
                kw['receive_event_firewall'] = self._pred(f['recv'])
            if p < 2:
                pr = Protocol(sock=f'S{p}', server=True, channel='node', **kw)
            else:
                pr = Protocol(channel='node', **kw)
            pr.register(self.apps[HOST[p]])
            self.protos[p] = pr
        self.dead = None
        self.drain_all()
        self.gens = {}          # (p, id) -> (generator, event)

    @staticmethod
    def _pred(spec):
        """the callable handed to Protocol(...): one instance per protocol and direction (it may carry state)"""
        return make_pred(spec)

    def proto(self, p):
        return self.protos[p]

    def send(self, j, e):
        return self.protos[2 + j].send(e)

    def deliver(self, p, seg):
        try:
            self.protos[p].add_buffer(seg)
            res = False
        except Exception as ex:   # noqa: BLE001
            res = type(ex).__name__
        self.drain_all()
        return res

    def close(self):
        return None

    def drain_all(self):
        """flush every manager until quiet; an exception out of flush() is what ends Manager.run()"""
        for _ in range(200):
            busy = False
            for m in self.managers:
                if len(m):
                    busy = True
                    try:
                        m.flush()
                    except Exception as e:   # noqa: BLE001
                        self.dead = f'{type(e).__name__}: {e}'
                        return
            if not busy:
                return
        self.dead = 'queue does not drain'

    def take_writes(self):
        """writes since last call, per protocol: {p: [bytes]}"""
        out = {}
        for h, app in enumerate(self.apps):
            for a in app.writes:
                if len(a) == 2:
                    p = int(a[0][1:])
                    data = a[1]
                else:
                    p = 2 if h == 1 else 3
                    data = a[0]
                out.setdefault(p, []).append(data)
            app.writes.clear()
        return out

    def take_log(self):
        out = []
        for h, app in enumerate(self.apps):
            for e in app.log:
                sock = e.__dict__.get('node_sock')
                p = int(sock[1:]) if isinstance(sock, str) else (2 if h == 1 else 3)
                out.append((p, e))
            app.log.clear()
        return out


def make_event(spec):
    from circuits import Event
    e = type(Event)(spec['name'], (Event,), {})(*spec['args'], **spec['kwargs'])
    e.success = spec['success']
    e.failure = spec['failure']
    e.notify = spec['notify']
    if spec['channels']:
        e.channels = tuple(spec['channels'])
    for k, v in spec.get('attrs', {}).items():
        setattr(e, k, v)
    return e


def event_obs(e, base):
    """what a dispatched event looks like to an observer, as an Ev object"""
    d = e.__dict__
    return {'name': e.name, 'args': list(e.args), 'kwargs': dict(e.kwargs), 'success': bool(e.success),
            'failure': bool(e.failure), 'notify': bool(e.notify), 'channels': list(e.channels),
            'attrs': {k: v for k, v in d.items() if k not in base}}


def run_session_impl(case):
    """returns list of per-step observations"""
    from circuits import Event
    base = set(dir(Event())) | BASE_EXTRA
    w = World(case.get('fw', {}))
    outbox = {p: b'' for p in range(4)}
    steps = []
    gens = {}
    for st in case['steps']:
        ob = {'writes': {}, 'fires': [], 'resolved': [], 'aborted': [], 'blocked': False, 'raw': []}
        kind = st[0]
        reads = []
        if kind == 'send':
            _k, p, spec, nores = st
            e = make_event(spec)
            if nores:
                e.node_without_result = True
            g = w.protos[p].send(e)
            try:
                first = next(g)
            except StopIteration:
                first = 'stop'
            ob['first'] = 'none' if first is None else ('stop' if first == 'stop' else 'value')
            ob['gen'] = (g, e)
            w.drain_all()
        elif kind == 'deliver':
            _k, p, cuts = st
            data, outbox[p] = outbox[p], b''
            reads = [(PEER[p], seg) for seg in cuts_to_segments(data, cuts)] if data else []
        elif kind == 'hostile':
            _k, p, hexdata, cuts = st
            data = unhx(hexdata)
            reads = [(p, seg) for seg in cuts_to_segments(data, cuts)] if data else []
        ob['reads'] = reads
        for (q, seg) in reads:
            try:
                w.protos[q].add_buffer(seg)
                ob['aborted'].append(False)
            except Exception as e:   # noqa: BLE001  (the dispatcher would catch it: handler error)
                ob['aborted'].append(type(e).__name__)
            w.drain_all()
            if w.dead:
                break
        for p, ws in w.take_writes().items():
            for data in ws:
                outbox[p] += data
                ob['raw'].append(data)
                body = data[:-3] if data.endswith(DELIM) else data
                try:
                    ob['writes'].setdefault(p, []).append(json.loads(body.decode('utf-8')))
                except ValueError:
                    ob['writes'].setdefault(p, []).append({'__unparsable__': body.hex()})
        for p, e in w.take_log():
            ob['fires'].append((p, e.__dict__.get('node_call_id'), event_obs(e, base)))
        ob['dead'] = w.dead
        steps.append(ob)
        if w.dead:
            break
        if kind == 'send' and ob['writes'].get(st[1]) and not st[3]:
            first_pkt = ob['writes'][st[1]][0]
            cid = first_pkt.get('id') if isinstance(first_pkt, dict) else None
            gens[(st[1], cid)] = (ob['gen'][0], ob['gen'][1], 'waiting')
        ob['done'] = []
        poll_impl(gens, ob['done'])
    w.gens = gens
    return w, steps


# ---------------------------------------------------------------------------------------
# session evaluation
# ---------------------------------------------------------------------------------------

def handler_value(evobs):
    return ['R', evobs['name'], list(evobs['args']), dict(evobs['kwargs'])]


def fw_tokens(fwp, p, rich):
    f = fwp.get(str(p))
    if not f:
        return '| | |'
    (sn, sc, sr), (rn, rc, rr) = fw_parts(f['send']), fw_parts(f['recv'])
    parts = [[sx(x) for x in part] for part in (sn, sc, rn, rc)]
    if rich:
        parts += [[rule_token(r) for r in sr], [rule_token(r) for r in rr]]
    return ' | '.join(' '.join(part) for part in parts)


def session_ops(ctx, fwp, excl, rich):
    """preamble of a session: exclusion set, the four protocols with their (resolved) firewalls"""
    ops = ['excl ' + ' '.join(sx(n) for n in excl)]
    for p in range(4):
        ops.append(f'new {p} {fw_tokens(fwp, p, rich)}')
    return ops


def driver_has_rules(ctx):
    """does the built driver know firewall rules (CV.Drv.Rule)?  An older driver answers bad-op; sessions whose
    firewalls have rules are then judged by the spec-on-implementation oracle only"""
    got = getattr(ctx, '_c19_fw_rules', None)
    if got is None:
        ans = ctx.driver.batch('node', [['new 0 | | | | le:a0:1 | ni:a0:-']])[0]
        got = ans[0] == 'ok'
        ctx._c19_fw_rules = got
        ctx.extra['driver_evaluates_firewall_rules'] = got
    return got


def eval_session(ctx, cases):
    """every session is a coroutine that yields its op lines twice (model run, spec predicates);
    the driver is called once per phase for the whole batch"""
    from circuits.node.utils import META_EXCLUDE
    excl = sorted(META_EXCLUDE)
    live = []
    for case in cases:
        co = eval_one_session(ctx, case, excl)
        try:
            ops = next(co)
            live.append((co, ops))
        except StopIteration:
            pass
        except Unsupported:
            ctx.count('skipped', 'unsupported-json')
    while live:
        answers = ctx.driver.batch('node', [ops for _co, ops in live])
        nxt = []
        for (co, _ops), ans in zip(live, answers):
            try:
                ops = co.send(ans)
                nxt.append((co, ops))
            except StopIteration:
                pass
            except Unsupported:
                ctx.count('skipped', 'unsupported-json')
        live = nxt


def poll_impl(gens, done_out):
    """advance every waiting generator once"""
    for key in list(gens):
        g, e, state = gens[key]
        if state != 'waiting':
            continue
        try:
            v = next(g)
        except StopIteration:
            gens[key] = (g, e, 'stopped')
            done_out.append((key, 'stopped', None, None))
            continue
        except Exception as ex:   # noqa: BLE001
            gens[key] = (g, e, 'error')
            done_out.append((key, f'error:{type(ex).__name__}', None, None))
            continue
        if v is None:
            continue
        gens[key] = (g, e, 'done')
        try:
            val = v.value
        except Exception:   # noqa: BLE001
            val = '<unreadable>'
        done_out.append((key, 'done', val, getattr(e, 'errors', '<unset>')))


def eval_one_session(ctx, case, excl):
    """runs impl and model in lock-step (the model needs the impl's bytes for the wire)"""
    from circuits import Event
    try:
        with ctx.guard(case, what='node Protocol (session of this case)'):
            w, steps = run_session_impl(case)
    except Unsupported:
        raise
    fwp = resolve_fw(case)                     # the firewalls as functions of the event (oracle and model)
    has_rules = fw_has_rules(fwp)
    # the driver evaluates the same predicates; one built before the rules existed cannot: oracle only then
    model_on = (not has_rules) or driver_has_rules(ctx)

    def disagree(c, detail):
        if model_on:
            ctx.disagree(c, detail)
    # ---- build model ops, replaying the byte strings the implementation wrote
    ops = session_ops(ctx, fwp, excl, has_rules and model_on)
    totals = {p: b'' for p in range(4)}
    seg_ends = {p: [] for p in range(4)}
    for ob in steps:
        for q, seg in ob['reads']:
            totals[q] += seg
            seg_ends[q].append(len(totals[q]))
    for p in range(4):
        if totals[p]:
            for _piece, ln in sorted(candidate_pieces(totals[p], seg_ends[p]).items()):
                if ln is None:
                    raise Unsupported()
                ops.append(ln)
    plan = []      # (step index, what, payload) per op after the preamble
    pre = len(ops)
    nid = {p: 0 for p in range(4)}
    sent = {}      # (p, id) -> spec   for sends that were written
    gens = {}
    model_fire_attrs = {}
    for i, (st, ob) in enumerate(zip(case['steps'], steps)):
        if st[0] == 'send':
            _k, p, spec, nores = st
            ops.append(f'send {p} {1 if nores else 0} {jt(ev_to_j(spec))}')
            plan.append((i, 'send', (p, spec, nores)))
        for q, seg in ob['reads']:
            ops.append(f'read {q} {hx(seg)}')
            plan.append((i, 'read', q))
        # results of the handlers of B for the calls the *implementation* dispatched in this step
        for (p, cid, evobs) in ob['fires']:
            if not evobs['name'].startswith('boom'):
                ops.append(f"result {jt([cid, handler_value(evobs), evobs['attrs']])}")
                plan.append((i, 'result', p))
        for (p, cid), status, val, er in ob.get('done', []):
            if status == 'done' and isinstance(cid, int) and cid >= 0:
                ops.append(f'poll {p} {cid}')
                plan.append((i, 'poll', (p, cid, val, er)))
                ops.append(f'finish {p} {cid}')
                plan.append((i, 'finish', p))
        if i == len(steps) - 1:
            for (p, cid), (_g, _e, state) in w.gens.items():
                if state == 'waiting' and isinstance(cid, int) and cid >= 0:
                    ops.append(f'poll {p} {cid}')
                    plan.append((i, 'poll', (p, cid, None, 'WAITING')))
    answers = yield ops
    for a in answers[:pre]:
        if a != 'ok':
            disagree(case, {'where': 'node.preamble', 'model': a})
            ctx.case(case, validated=False)
            return
    ans = answers[pre:]
    if any(a.startswith('need') for a in ans):
        # the model asked the oracle about a piece the harness did not foresee: supply and retry once
        extra = [oracle_line(unhx(a.split()[1])) for a in ans if a.startswith('need')]
        ctx.count('oracle', 'late-need')
        ops2 = ops[:pre] + [e for e in extra if e] + ops[pre:]
        for _ in range(6):
            answers = ctx.driver.batch('node', [ops2])[0]
            k = len(ops2) - len(ops) + pre
            ans = answers[k:]
            more = [oracle_line(unhx(a.split()[1])) for a in ans if a.startswith('need')]
            if not more:
                break
            ops2 = ops2[:pre] + [e for e in more if e] + ops2[pre:]
        else:
            disagree(case, {'where': 'node.oracle', 'model': 'keeps asking for pieces'})
            ctx.case(case, validated=False)
            return
    # ---- compare step by step
    ok = True
    by_step = {}
    optext = ops[pre:]
    for k, ((i, what, payload), a) in enumerate(zip(plan, ans)):
        if a == 'bad-op':
            disagree(case, {'where': 'node.bad-op', 'step': i, 'op': optext[k][:400]})
            ctx.case(case, validated=False)
            return
        by_step.setdefault(i, []).append((what, payload, a))
    dispatched = {}     # (receiving proto) -> [ids]
    expected_once = {}  # (receiving proto) -> [ids]
    violations = []
    pending_model = {}
    for i, (st, ob) in enumerate(zip(case['steps'], steps)):
        m_writes, m_fires, m_resolved, m_aborted = {}, [], [], []
        send_blocked = None
        for what, payload, a in by_step.get(i, []):
            if what == 'finish':
                continue
            if what == 'poll':
                p, cid, val, er = payload
                if er == 'WAITING':
                    if a != 'waiting':
                        ok = False
                        disagree(case, {'where': 'node.poll', 'step': i, 'impl': 'waiting', 'model': a[:200]})
                    continue
                if not a.startswith('done '):
                    ok = False
                    disagree(case, {'where': 'node.poll', 'step': i, 'impl': f'done {val!r} {er!r}'[:200], 'model': a[:200]})
                    continue
                toks = a.split()[1:]
                vals, k = jdec_tokens(toks, 0)
                mer, k = jdec_tokens(toks, k)
                if len(vals) != 1:
                    ctx.count('skipped', 'several-answers-for-one-id')
                    continue
                try:
                    same = canon(vals[0]) == canon(val) and canon(mer) == canon(er)
                except Unsupported:
                    same = False
                if not same:
                    ok = False
                    disagree(case, {'where': 'node.poll', 'step': i, 'impl': f'{val!r} {er!r}'[:200], 'model': a[:200]})
                continue
            if a == 'bad-op':
                disagree(case, {'where': 'node.bad-op', 'step': i, 'op': what})
                ctx.case(case, validated=False)
                return
            effs = [] if a == 'nothing' else [e.strip() for e in a.split(' ; ')]
            aborted = False
            for e in effs:
                kind, _, rest = e.partition(' ')
                if kind == 'aborted':
                    aborted = True
                elif kind == 'write':
                    p = payload[0] if what == 'send' else payload
                    m_writes.setdefault(p, []).append(jdec(rest))
                elif kind == 'fire':
                    toks = rest.split()
                    cid, k = jdec_tokens(toks, 0)
                    ev, _ = jdec_tokens(toks, k)
                    m_fires.append((payload, cid, ev))
                elif kind == 'resolve':
                    toks = rest.split()
                    n = int(toks[0])
                    v, k = jdec_tokens(toks, 1)
                    er, _ = jdec_tokens(toks, k)
                    m_resolved.append((payload, n, v, er))
            if what == 'read':
                m_aborted.append(aborted)
            if what == 'send':
                send_blocked = (a == 'nothing')
        # --- send bookkeeping + firewall spec on impl
        if st[0] == 'send':
            _k, p, spec, nores = st
            impl_wrote = bool(ob['writes'].get(p))
            pred_ok, why = pure_pred(fwp, p, 'send')(make_event(spec))
            ctx.count('firewall_send', 'no firewall' if str(p) not in fwp else 'allowed' if pred_ok else f'rejected({why})')
            if not pred_ok and impl_wrote:
                violations.append((fw_sig('sent-despite-firewall', why),
                                   f'event {spec["name"]}{tuple(spec["args"])!r} rejected by the send firewall of P{p} ({why}) was written'))
            if pred_ok and not impl_wrote and str(p) in fwp:
                violations.append(('not-sent-although-firewall-allows',
                                   f'event {spec["name"]}{tuple(spec["args"])!r} is allowed by the send firewall of P{p}, nothing was written'))
            if impl_wrote:
                cid = ob['writes'][p][0].get('id') if isinstance(ob['writes'][p][0], dict) else None
                sent[(p, cid)] = spec
                if PEER[p] is not None:
                    expected_once.setdefault(PEER[p], []).append((cid, spec))
            if bool(send_blocked) != (not impl_wrote):
                ok = False
                disagree(case, {'where': 'node.send', 'step': i, 'impl_wrote': impl_wrote, 'model_blocked': send_blocked})
        # --- writes
        iw = {p: sorted(canon(x) for x in v) for p, v in ob['writes'].items()}
        mw = {p: sorted(canon(x) for x in v) for p, v in m_writes.items()}
        if iw != mw and not ob['dead']:
            ok = False
            disagree(case, {'where': 'node.writes', 'step': i, 'impl': str(ob['writes'])[:300], 'model': str(m_writes)[:300]})
        # --- fires
        i_f = sorted((p, canon(cid), canon(ev)) for p, cid, ev in ob['fires'])
        m_f = []
        for p, cid, ev in m_fires:
            ev = dict(ev)
            ev['success'] = True                          # set by __process_packet_call
            if not ev['channels']:
                ev['channels'] = ['node']                 # fired on the protocol's own channel
            m_f.append((p, canon(cid), canon(ev)))
        if i_f != sorted(m_f) and not ob['dead']:
            ok = False
            disagree(case, {'where': 'node.fires', 'step': i, 'impl': str(i_f)[:300], 'model': str(sorted(m_f))[:300]})
        for p, cid, ev in ob['fires']:
            dispatched.setdefault(p, []).append((cid, ev))
        # --- aborted reads
        if [bool(x) for x in ob['aborted']] != m_aborted[:len(ob['aborted'])] and not ob['dead']:
            ok = False
            disagree(case, {'where': 'node.aborted', 'step': i, 'impl': ob['aborted'], 'model': m_aborted})
        # --- loop liveness (spec on impl)
        if ob['dead']:
            violations.append((f'loop-killed({classify_hostile(case, i)})',
                               f'flush() raised {ob["dead"]} after step {i} {st[0]}: Manager.run() would end'))
            break
        # --- waiting generators
        done = ob.get('done', [])
        for (p, cid), status, val, errors in done:
            ctx.count('generator', status)
            if status.startswith('error'):
                violations.append((f'wrong-result-routing({status})', f'the generator waiting for id {cid} on P{p} raised'))
    # ---- property-level checks on the implementation's behaviour (spec on impl)
    spec_ops = []
    spec_meta = []
    complete = all(not any(st2[0] == 'send' and st2[1] == p for st2 in case['steps'][last_deliver(case, p) + 1:])
                   for p in range(4)) and not case.get('hostile')
    for q in range(4):
        exp = expected_once.get(q, [])
        got = dispatched.get(q, [])
        if not exp and not got:
            continue
        if case.get('hostile'):
            continue
        # events rejected by the receive firewall must not be dispatched, the others exactly once
        rpred = pure_pred(fwp, q, 'recv')
        allowed, refused = [], []
        for cid, spec in exp:
            v, why = rpred(make_event(spec))
            if v:
                allowed.append(cid)
            else:
                refused.append((cid, why, spec))
            ctx.count('firewall_recv', 'no firewall' if str(q) not in fwp else 'allowed' if v else f'rejected({why})')
        got_ids = [cid for cid, _ev in got]
        for cid, why, spec in refused:
            if cid in got_ids:
                violations.append((fw_sig('dispatched-despite-firewall', why),
                                   f'call {cid} {spec["name"]}{tuple(spec["args"])!r} rejected by the receive firewall of P{q} '
                                   f'({why}) was dispatched'))
        if str(q) in fwp and exp:
            vs = [rpred(make_event(spec))[0] for _cid, spec in exp]
            same_key = len({(spec['name'], tuple(map(str, spec['channels']))) for _cid, spec in exp}) < len(exp)
            ctx.count('firewall_recv_sequence', ('mixed verdicts' if len(set(vs)) > 1 else 'one verdict')
                      + (', repeated (name, channels)' if same_key else ''))
        if complete and all(isinstance(c, int) for c in allowed + got_ids):
            spec_ops.append(f"spec-once {' '.join(map(str, allowed))} | {' '.join(map(str, got_ids))}")
            spec_meta.append(('once', q, allowed, got_ids, [c for c, _w, _s in refused]))
        for cid, ev in got:
            spec = dict(exp).get(cid) if all(isinstance(c, int) for c, _ in exp) else None
            if spec is None:
                continue
            a = ev_to_j(spec)
            b = dict(ev)
            b['success'] = a['success']
            if not a['channels']:
                b['channels'] = []
            b['attrs'] = {}
            a['attrs'] = {}
            spec_ops.append(f'spec-same {jt([a, b])}')
            spec_meta.append(('same', q, cid, spec['name']))
    for ob in steps:
        for raw in ob['raw']:
            spec_ops.append(f'spec-wire {hx(raw)}')
            spec_meta.append(('wire', raw[:40]))
    if spec_ops:
        res = yield spec_ops
        for meta, r in zip(spec_meta, res):
            if r == 'ok':
                continue
            if meta[0] == 'once':
                _t, q, allowed, got_ids, refused_ids = meta
                missing = [c for c in allowed if got_ids.count(c) == 0]
                twice = [c for c in allowed if got_ids.count(c) > 1]
                if twice:
                    violations.append(('executed-twice', f'calls {twice} were dispatched more than once on P{q}'))
                if missing:
                    # answered by the receiver without a dispatch = refused by its firewall gate, not lost on the wire
                    answered = [c for c in missing if any(isinstance(pk, dict) and 'value' in pk and 'name' not in pk
                                                          and pk.get('id') == c for ob in steps for pk in ob['writes'].get(q, []))]
                    if answered and str(q) in fwp:
                        violations.append(('refused-although-firewall-allows',
                                           f'calls {answered} sent to P{q} are allowed by its receive firewall, but were '
                                           f'answered with an empty result and never dispatched'))
                    missing = [c for c in missing if c not in answered or str(q) not in fwp]
                if missing:
                    violations.append((f'packet-dropped({classify_drop(case, steps, q, missing)})',
                                       f'calls {missing} sent to P{q} were never dispatched'))
                # (a dispatched call the receive firewall rejects has its own signature above)
                if not twice and not missing and any(c not in refused_ids for c in got_ids if c not in allowed):
                    violations.append(('executed-unsent', f'P{q} dispatched {got_ids}, sent were {allowed}'))
            elif meta[0] == 'same':
                violations.append((f'roundtrip({r.split()[-1]})', f'call {meta[2]} ({meta[3]}) arrived with a different {r.split()[-1]}'))
            elif meta[0] == 'wire':
                violations.append(('packet-dropped(delimiter-in-payload)', f'written packet contains the delimiter: {meta[1]!r}...'))
    # exactly one result packet per call id travels back (whatever flags / channels the call carried)
    if not case.get('hostile'):
        for (p, cid), spec in sent.items():
            q = PEER[p]
            n_res = sum(1 for ob in steps for pk in ob['writes'].get(q, [])
                        if isinstance(pk, dict) and 'value' in pk and 'name' not in pk and pk.get('id') == cid
                        and type(pk.get('id')) is type(cid))
            ctx.count('result_packets_per_call', min(n_res, 3))
            ctx.count('call_flags_channels', dup_sig(spec)[len('duplicate-result('):-1])
            if n_res > 1:
                violations.append((dup_sig(spec), f'call {cid} ({spec["name"]}) of P{p}: {n_res} result packets travelled back'))
    # answers: every call that was dispatched by a returning handler must have resolved its waiting generator
    if complete and not case.get('hostile'):
        for (p, cid), (g, e, state) in w.gens.items():
            spec = sent[(p, cid)]
            q = PEER[p]
            got = [ev for c, ev in dispatched.get(q, []) if c == cid]
            rejected = not pure_pred(fwp, q, 'recv')(make_event(spec))[0]
            if rejected:
                want = None                     # the receive firewall answers with an empty value
            elif spec['name'].startswith('boom'):
                if state != 'done' and got:
                    violations.append(('no-answer(remote-handler-raised)',
                                       f'call {cid} ({spec["name"]}) failed on the peer and the sender was never told'))
                continue
            elif len(got) == 1:
                want = handler_value(got[0])
            else:
                continue                        # reported by spec-once already
            fin = [(val, er) for ob in steps for (k, status, val, er) in ob.get('done', []) if k == (p, cid) and status == 'done']
            if not fin:
                violations.append(('wrong-result-routing(no-answer)', f'generator of call {cid} on P{p} never got an answer'))
            elif rejected and (fin[0][0] is not None or fin[0][1] is not False):
                violations.append(('wrong-result-routing(rejected-call-got-a-result)',
                                   f'call {cid} on P{p} is rejected by the receive firewall of P{q}: the sender must get the '
                                   f'empty answer, it got {fin[0]!r}'))
            elif canon(fin[0][0]) != canon(want) or fin[0][1] is not False:
                violations.append(('wrong-result-routing(value)',
                                   f'call {cid} on P{p} got {fin[0]!r}, the handler returned {want!r}'))
    seen = set()
    for sig, what in violations:
        if sig not in seen:
            seen.add(sig)
            ctx.violate(case, sig, what)
    ctx.count('session_kind', case.get('tag', 'session'))
    ctx.count('reads', min(sum(len(ob['reads']) for ob in steps), 20))
    big = any(len(seg) > 4096 for ob in steps for _q, seg in ob['reads'])
    ctx.count('read>4096', big)
    if has_rules:
        ctx.count('firewall_rules_checked_by', 'model and oracle' if model_on else 'oracle only (driver without rules)')
    ctx.case(strip_case(case), nontrivial=sum(len(ob['reads']) for ob in steps) > 1, validated=ok and model_on)


def dup_sig(spec):
    """classifier of a duplicated result: which feedback flags the call carried, which kind of channel it went to"""
    flags = [f for f in ('success', 'failure', 'notify') if spec.get(f)]
    if (spec.get('attrs') or {}).get('complete'):
        flags.append('complete')
    ch = [c for c in spec.get('channels', []) if isinstance(c, str)]
    kind = ('star-channel' if '*' in ch else 'result-channel' if 'node_result' in ch else 'node-channel' if 'node' in ch
            else 'plain-channel' if ch else 'no-channel')
    return f"duplicate-result({'+'.join(flags) or 'no-flags'},{kind})"


def fw_sig(base, why):
    """the plain signature for the name / channel family; the part of the predicate that rejects otherwise"""
    return base if why in (None, 'name-or-channel') else f'{base}({why})'


def strip_case(case):
    return case


def last_deliver(case, p):
    idx = -1
    for i, st in enumerate(case['steps']):
        if st[0] == 'deliver' and st[1] == p:
            idx = i
    return idx


def classify_hostile(case, i):
    st = case['steps'][i]
    if st[0] != 'hostile':
        return case.get('tag', 'legit')
    return case.get('hostile_sig', 'hostile')


def classify_drop(case, steps, q, missing):
    """deterministic classifier of a lost call"""
    for st in case['steps']:
        if st[0] == 'send' and PEER[st[1]] == q and ({'cls', '_name'} & set(st[2]['kwargs'])):
            return 'kwarg-name-collision'
    for st in case['steps']:
        if st[0] == 'send' and PEER[st[1]] == q:
            blob = json.dumps([st[2]['args'], st[2]['kwargs'], st[2]['name'], st[2].get('attrs', {}), st[2]['channels']])
            if '~~~' in blob:
                return 'delimiter-in-payload'
    for st in case['steps']:
        if st[0] == 'send' and PEER[st[1]] == q:
            blob = json.dumps([st[2]['args'], st[2]['kwargs'], st[2].get('attrs', {})])
            if '"value":' in blob:
                return 'value-key-in-call'
    for st in case['steps']:
        if st[0] == 'send' and PEER[st[1]] == q and ({'cls', '_name'} & set(st[2]['kwargs'])):
            return 'kwarg-name-collision'
    for st in case['steps']:
        if st[0] == 'deliver' and PEER[st[1]] == q and st[2]:
            return 'cut'
    return 'other'


# ---------------------------------------------------------------------------------------
# codec / hostile load_event / split / esc
# ---------------------------------------------------------------------------------------

def critical_names():
    """attribute names circuits.core reads or writes on an event object while dispatching (AST scan)"""
    from circuits.core import manager, values
    names = set()
    for mod in (manager, values):
        tree = ast.parse(inspect.getsource(mod))
        for node in ast.walk(tree):
            if isinstance(node, ast.Attribute) and isinstance(node.value, ast.Name) and node.value.id in ('event', 'cause'):
                names.add(node.attr)
            if (isinstance(node, ast.Attribute) and isinstance(node.value, ast.Attribute) and node.value.attr == 'event'
                    and isinstance(node.value.value, ast.Name) and node.value.value.id == 'self'):
                names.add(node.attr)
            if isinstance(node, ast.Call) and isinstance(node.func, ast.Name) and node.func.id in ('getattr', 'hasattr', 'delattr', 'setattr'):
                if len(node.args) >= 2 and isinstance(node.args[1], ast.Constant) and isinstance(node.args[1].value, str):
                    tgt = node.args[0]
                    if (isinstance(tgt, ast.Name) and tgt.id in ('event', 'cause')) or \
                       (isinstance(tgt, ast.Attribute) and tgt.attr in ('_currently_handling', 'event')):
                        names.add(node.args[1].value)
    # reduce_time_left / lock belong to generate_events only, which cannot come from a peer
    return sorted(names - {'reduce_time_left', 'lock', 'time_left'})


def eval_codec(ctx, cases):
    """cases: dict(kind='codec', packet=<python JSON value>) : load_event on a parsed packet"""
    from circuits import Event
    from circuits.node.utils import META_EXCLUDE, dump_event, load_event
    excl = sorted(META_EXCLUDE)
    crit = sorted(set(CRITICAL_BASE) | set(critical_names()))
    ops_all, recs = [], []
    for c in cases:
        pkt = c['packet']
        rec = {}
        try:
            text = json.dumps(pkt)
            tok = jt(json.loads(text))
        except (Unsupported, ValueError, TypeError, RecursionError):
            ctx.count('skipped', 'unsupported-json')
            recs.append(None)
            ops_all.append([])
            continue
        try:
            e, cid = load_event(text)
            base = set(dir(Event())) | BASE_EXTRA
            rec['out'] = ('ok', cid, event_obs(e, base))
            rec['event'] = e
        except (TypeError, ValueError, LookupError):
            rec['out'] = ('drop',)
        except RecursionError:
            rec['out'] = ('skip',)
        except Exception as ex:   # noqa: BLE001
            rec['out'] = ('raised', type(ex).__name__)
        recs.append(rec)
        ops_all.append(['excl ' + ' '.join(sx(n) for n in excl), f'loadevent {tok}'])
    answers = ctx.driver.batch('node', ops_all)
    for c, rec, ans in zip(cases, recs, answers):
        if rec is None or rec['out'][0] == 'skip':
            continue
        a = ans[1]
        ok = True
        kind = rec['out'][0]
        ctx.count('load_event', kind)
        if kind == 'ok':
            _k, cid, evo = rec['out']
            want = None
            if a.startswith('ok '):
                toks = a.split()[1:]
                mid, k = jdec_tokens(toks, 0)
                mev, _ = jdec_tokens(toks, k)
                want = (canon(mid), canon(mev))
            try:
                got = (canon(cid), canon(evo))
            except Unsupported:
                continue
            if want != got:
                ok = False
                ctx.disagree(c, {'where': 'node.load_event', 'impl': str(rec['out'])[:300], 'model': a[:300]})
            # spec on impl: attributes the dispatcher relies on are those of a locally made event
            e = rec['event']
            ref = Event.create(e.name, *e.args, **e.kwargs)
            missing = object()
            for k in crit:
                if k in ('success', 'failure', 'notify', 'channels', 'args', 'kwargs', 'name'):
                    continue
                gv, rv = getattr(e, k, missing), getattr(ref, k, missing)
                same = (gv is rv) or (type(gv) is type(rv) and not callable(gv) and gv == rv) or (callable(gv) and callable(rv) and getattr(gv, '__func__', gv) is getattr(rv, '__func__', rv))
                if not same:
                    ctx.violate(c, f'loop-killed(meta:{k})', f'a peer can set event.{k} = {gv!r} through meta')
            try:
                hash(tuple(e.channels))
            except TypeError:
                ctx.violate(c, 'loop-killed(channels:unhashable)', f'a peer can make event.channels = {e.channels!r}')
        else:
            if a != kind:
                ok = False
                ctx.disagree(c, {'where': 'node.load_event', 'impl': str(rec['out'])[:300], 'model': a[:300]})
        ctx.case(c, nontrivial=True, validated=ok)


def eval_roundtrip(ctx, cases):
    """cases: dict(kind='roundtrip', event=spec, id=n): load_event(dump_event(e, id)) keeps the fields"""
    from circuits import Event
    from circuits.node.utils import META_EXCLUDE, dump_event, load_event
    excl = sorted(META_EXCLUDE)
    base = set(dir(Event())) | BASE_EXTRA
    ops_all, recs = [], []
    for c in cases:
        spec = c['event']
        e = make_event(spec)
        text = dump_event(e, c['id'])
        rec = {'text': text}
        try:
            e2, cid = load_event(text)
            rec['back'] = (cid, event_obs(e2, base))
        except Exception as ex:   # noqa: BLE001
            rec['back'] = None
            rec['exc'] = repr(ex)
        recs.append(rec)
        ops = ['excl ' + ' '.join(sx(n) for n in excl),
               f"dumpevent {jt([ev_to_j(spec), c['id']])}",
               f"esc {hx(json.dumps(json.loads(text)).encode())}",
               f"spec-wire {hx(text.encode() + DELIM)}"]
        if rec['back']:
            a = ev_to_j(spec)
            b = dict(rec['back'][1])
            a['attrs'] = {}
            b['attrs'] = {}
            ops.append(f'spec-same {jt([a, b])}')
        ops_all.append(ops)
    answers = ctx.driver.batch('node', ops_all)
    for c, rec, ans in zip(cases, recs, answers):
        ok = True
        try:
            if canon(jdec(ans[1])) != canon(json.loads(rec['text'])):
                ok = False
                ctx.disagree(c, {'where': 'node.dump_event', 'impl': rec['text'][:300], 'model': ans[1][:300]})
        except Exception as ex:   # noqa: BLE001
            ok = False
            ctx.disagree(c, {'where': 'node.dump_event', 'impl': rec['text'][:300], 'model': ans[1][:200], 'err': repr(ex)})
        plain = json.dumps(json.loads(rec['text'])).encode()
        if unhx(ans[2]) != plain.replace(b'~', b'\\u007e'):
            ok = False
            ctx.disagree(c, {'where': 'node.esc', 'model': ans[2][:200]})
        if ans[3] != 'ok':
            ctx.violate(c, 'packet-dropped(delimiter-in-payload)', f'dump_event output contains "~": {rec["text"][:80]!r}')
        if rec['back'] is None:
            ctx.violate(c, f'roundtrip({classify_rt(c)})', f'load_event(dump_event(e)) failed: {rec["exc"]}')
        elif ans[4] != 'ok':
            ctx.violate(c, f'roundtrip({ans[4].split()[-1]})', f'load_event(dump_event(e)) changed {ans[4].split()[-1]}')
        ctx.case(c, nontrivial=True, validated=ok)


def classify_rt(c):
    if {'cls', '_name'} & set(c['event']['kwargs']):
        return 'kwarg-name-collision'
    return 'load-failed'


def eval_split(ctx, cases):
    ops_all = [[f"split {c['data']}"] for c in cases]
    answers = ctx.driver.batch('node', ops_all)
    for c, ans in zip(cases, answers):
        want = ' '.join(hx(p) for p in unhx(c['data']).split(DELIM))
        ok = ans[0].strip() == want.strip()
        if not ok:
            ctx.disagree(c, {'where': 'node.split', 'impl': want, 'model': ans[0]})
        ctx.case(c, nontrivial=b'~' in unhx(c['data']), validated=ok)


# ---------------------------------------------------------------------------------------
# generators
# ---------------------------------------------------------------------------------------

NAMES = ['foo', 'bar', 'boom', 'hello_world', 'x']
KEYS = ['a', 'k', 'value', 'name', 'id', 'meta', 'cls', '_name', 'errors', 'args']
ATTR_KEYS = ['tag', '_t', 'color', 'x_y']
# channels of a remote event: ordinary ones, the wildcard, the channel the results travel on, the node's own channel
CHANNEL_POOL = [[], [], ['app'], ['chan1', 'app'], ['secret'], ['~~~'], ['*'], ['*'], ['*', 'app'], ['app', '*'], ['node_result'],
                ['node_result', 'app'], ['node'], ['node', '*']]
STRS = ['', 'a', 'hello', '~', '~~', '~~~', 'x~~~y', '"value":', 'é€', '\\', '"', '\n', 'a"value": 1', '~~~{"id":0}~~~', '\x00', ' ']


def gen_value(rng, depth=0, big=False):
    r = rng.random()
    if big and depth == 0:
        return rng.choice(['~', 'ab', 'é', 'x~~~', '"']) * rng.randint(1500, 3000)
    if r < 0.25:
        return rng.choice(STRS)
    if r < 0.45:
        return rng.choice([0, 1, -1, 7, 2 ** 40, 1.5, -0.0, 1e100, 3.0])
    if r < 0.55:
        return rng.choice([None, True, False])
    if depth >= 2:
        return rng.choice(STRS)
    if r < 0.8:
        return [gen_value(rng, depth + 1) for _ in range(rng.randint(0, 3))]
    return {rng.choice(KEYS + STRS[:8]): gen_value(rng, depth + 1) for _ in range(rng.randint(0, 3))}


def gen_event(rng, big=False, names=NAMES, plain=False):
    name = rng.choice(names)
    nargs = rng.randint(0, 3)
    args = [gen_value(rng) for _ in range(nargs)]
    if big:
        args.append(gen_value(rng, big=True))
    kwargs = {} if plain else {rng.choice(KEYS): gen_value(rng) for _ in range(rng.choice([0, 0, 1, 2]))}
    attrs = {} if plain else {rng.choice(ATTR_KEYS): gen_value(rng, 1) for _ in range(rng.choice([0, 0, 0, 1]))}
    if not plain and rng.random() < 0.2:
        attrs['complete'] = True              # the fourth feedback flag (an instance attribute, like the others)
    return {'name': name, 'args': args, 'kwargs': kwargs,
            'success': rng.random() < 0.3, 'failure': rng.random() < 0.3, 'notify': rng.random() < 0.2,
            'channels': rng.choice(CHANNEL_POOL), 'attrs': attrs}


def gen_fw(rng):
    fw = {}
    for p in range(4):
        if rng.random() < 0.35:
            fw[str(p)] = {'send': (rng.sample(NAMES, rng.randint(0, 2)), rng.choice([[], ['secret']])),
                          'recv': (rng.sample(NAMES, rng.randint(0, 2)), rng.choice([[], ['secret'], ['app']]))}
    return fw


# firewalls whose verdict is not a function of (name, channels): directed sequences on one connection

FW_RULES = {
    'args': {'k': 'le', 'sel': ['a', 0], 'n': 100},
    'kwargs': {'k': 'eq', 'sel': ['k', 'mode'], 'v': 'ro'},
    'attribute': {'k': 'eq', 'sel': ['t', 'token'], 'v': 'sesame'},
}
FW_ORDERS = {'allowed-first': 'ARA', 'rejected-first': 'RAR', 'alternating': 'ARARA', 'alternating-from-rejected': 'RARAR',
             'late-reject': 'AAAR', 'late-allow': 'RRRA'}
FW_NTH = [(2, 0), (2, 1), (3, 0), (3, 2)]          # (n, phase): R A R A R / A R A R A / R A A R A / A A R A A
FW_CUTS = ['none', 'after-body', 'in-delim', 'every-64', 'bytes-at-delims', 'one']


def fw_event(kind, allowed, i, channels, name='foo'):
    """event number i of a directed sequence: same name and channels throughout, the verdict hangs on `kind`"""
    ev = {'name': name, 'args': [i], 'kwargs': {}, 'success': False, 'failure': False, 'notify': False,
          'channels': list(channels), 'attrs': {}}
    if kind == 'args':
        ev['args'] = [(50 if allowed else 5000) + i]
    elif kind == 'kwargs':
        ev['kwargs'] = {'mode': 'ro'} if allowed else ({'mode': 'rw'} if i % 2 else {})
    elif kind == 'attribute':
        ev['attrs'] = {'token': 'sesame'} if allowed else ({'token': 'guess'} if i % 2 else {})
    return ev


def fw_directed_session(kind, rule, pattern, side, sender, awaited, mode, channels, label):
    q = PEER[sender]
    fw = {str(sender): {'send': [[], [], [rule] if side == 'send' else []], 'recv': [[], []]},
          str(q): {'send': [[], []], 'recv': [[], [], [rule] if side == 'recv' else []]}}
    steps = []
    for i, c in enumerate(pattern):
        steps.append(['send', sender, fw_event(kind, c == 'A', i, channels), False])
        if awaited:
            steps += [['deliver', sender, []], ['deliver', q, []]]
    if not awaited:
        steps += [['deliver', sender, mode], ['deliver', q, mode]]
    return {'kind': 'session', 'tag': f'firewall-{side}-{kind}', 'label': label, 'fw': fw, 'seed': 19, 'steps': steps}


def fw_directed_cases():
    """every kind of dependency x send / receive firewall x both connection roles x orders of allowed / rejected
    events of one (name, channels); each awaited one by one, and all in flight and delivered as one stream
    (uncut: every packet in one read, or cut)"""
    cases = []
    k = 0
    combos = [(kind, rule, order, pattern) for kind, rule in FW_RULES.items() for order, pattern in FW_ORDERS.items()]
    combos += [('call-counter', {'k': 'nth', 'n': n, 'phase': phase}, f'every-{n}th-from-{phase}',
                ''.join('R' if i % n == phase else 'A' for i in range(5))) for n, phase in FW_NTH]
    for kind, rule, order, pattern in combos:
        for side in ('recv', 'send'):
            for sender in (2, 0):
                channels = [[], ['app'], ['chan1', 'app']][k % 3]
                mode = 'none' if k % 2 == 0 else FW_CUTS[1 + (k // 2) % (len(FW_CUTS) - 1)]
                cases.append(fw_directed_session(kind, rule, pattern, side, sender, True, None, channels, f'{order}:{pattern}:awaited'))
                cases.append(fw_directed_session(kind, rule, pattern, side, sender, False, mode, channels, f'{order}:{pattern}:in-flight'))
                k += 1
    return cases


def fw_rich_session(rng, multi=False):
    """random session on one connection (or two): firewalls with rules on both ends, events of few (name, channels)
    whose arguments / keyword arguments / attributes / position decide the verdict"""
    def rules():
        out = []
        for name in rng.sample(['args', 'kwargs', 'attribute', 'nth'], rng.choice([0, 1, 1, 1, 2])):
            if name == 'nth':
                n = rng.randint(2, 4)
                out.append({'k': 'nth', 'n': n, 'phase': rng.randrange(n)})
            else:
                out.append(dict(FW_RULES[name]))
        return out
    links = [rng.choice([0, 2])] if not multi else [rng.choice([0, 2]), rng.choice([1, 3])]
    fw = {}
    for p in links:
        for x in (p, PEER[p]):
            fw[str(x)] = {'send': [rng.choice([[], [], ['bar']]), rng.choice([[], [], ['secret']]), rules()],
                          'recv': [rng.choice([[], [], ['bar']]), rng.choice([[], [], ['secret']]), rules()]}
    chans = rng.choice([[], ['app'], ['chan1', 'app']])
    steps = []
    seq = 0
    for _ in range(rng.randint(3, 7)):
        p = rng.choice(links)
        if rng.random() < 0.25:
            p = PEER[p]                       # traffic in the other direction of the same connection
        seq += 1
        ev = {'name': rng.choice(['foo', 'foo', 'foo', 'bar']), 'args': [seq if rng.random() < 0.6 else 1000 + seq],
              'kwargs': rng.choice([{'mode': 'ro'}, {'mode': 'ro'}, {'mode': 'rw'}, {}, {'mode': 1}]),
              'success': rng.random() < 0.2, 'failure': False, 'notify': False,
              'channels': list(chans) if rng.random() < 0.85 else ['secret'],
              'attrs': rng.choice([{'token': 'sesame'}, {'token': 'sesame'}, {'token': 'guess'}, {}, {'token': ['sesame']}])}
        if rng.random() < 0.3:
            ev['args'].append(gen_value(rng, 1))
        steps.append(['send', p, ev, rng.random() < 0.1])
        if rng.random() < 0.4:
            steps.append(['deliver', p, rng.choice(CUT_MODES)])
        if rng.random() < 0.3:
            steps.append(['deliver', PEER[p], rng.choice(CUT_MODES)])
    ends = [x for p in links for x in (p, PEER[p])]
    for rnd in range(3):
        for p in (ends if rnd % 2 == 0 else list(reversed(ends))):
            steps.append(['deliver', p, rng.choice(CUT_MODES)])
    return {'kind': 'session', 'tag': 'firewall-random', 'fw': fw, 'steps': steps, 'seed': rng.randint(0, 2 ** 30)}


def cut_marks(rng, mode):
    """cut lists are symbolic: resolved against the actual byte count by `resolve_cuts`"""
    return mode


def resolve_session(rng, skeleton):
    """a skeleton has 'deliver' steps with a cut *mode*; modes are resolved to positions by a dry run of the
    implementation (the byte strings are only known then)"""
    return skeleton


def legit_session(rng, scale, tag='legit', big=False, multi=False, names=NAMES, fw=None, plain=False):
    """sends on one or several links, deliveries with cut modes resolved lazily (see materialise)"""
    steps = []
    links = [0, 2] if not multi else [0, 1, 2, 3]
    n = rng.randint(1, 4)
    for _ in range(n):
        p = rng.choice(links)
        steps.append(['send', p, gen_event(rng, big=big and rng.random() < 0.6, names=names, plain=plain), rng.random() < 0.15])
        if rng.random() < 0.4:
            steps.append(['deliver', p, rng.choice(CUT_MODES)])
    for rnd in range(3):
        for p in (links if rnd % 2 == 0 else list(reversed(links))):
            steps.append(['deliver', p, rng.choice(CUT_MODES)])
    return {'kind': 'session', 'tag': tag, 'fw': gen_fw(rng) if fw is None else fw, 'steps': steps, 'seed': rng.randint(0, 2 ** 30)}


CUT_MODES = ['none', 'one', 'few', 'bytes-at-delims', 'in-delim', 'after-body', 'every-64', 'buffer-4096']


def cuts_for(mode, data, rng):
    n = len(data)
    if n <= 1 or mode == 'none':
        return []
    if mode == 'one':
        return [rng.randint(1, n - 1)]
    if mode == 'few':
        return sorted(set(rng.randint(1, n - 1) for _ in range(rng.randint(2, 6))))
    ds = []
    i = data.find(DELIM)
    while i >= 0:
        ds.append(i)
        i = data.find(DELIM, i + 3)
    if mode == 'bytes-at-delims':
        return sorted(set(c for d in ds for c in (d - 1, d, d + 1, d + 2, d + 3, d + 4) if 0 < c < n))
    if mode == 'in-delim':
        return sorted(set(c for d in ds for c in (d + rng.choice([1, 2]),) if 0 < c < n))
    if mode == 'after-body':
        return sorted(set(d for d in ds if 0 < d < n))
    if mode == 'every-64':
        return list(range(64, n, 64))
    if mode == 'buffer-4096':
        return list(range(4096, n, 4096))
    return []


def materialise(case):
    """replace cut modes by positions: dry-run the implementation to learn the byte strings"""
    import random
    if all(not (st[0] in ('deliver',) and isinstance(st[2], str)) for st in case['steps']):
        return case
    rng = random.Random(case.get('seed', 0))
    steps = []
    for idx, st in enumerate(case['steps']):
        if st[0] == 'deliver' and isinstance(st[2], str):
            # run the prefix to find out what is in the outbox of st[1]
            probe = dict(case)
            probe['steps'] = steps + [['deliver', st[1], []]]
            try:
                _w, obs = run_session_impl(probe)
                data = b''.join(seg for _q, seg in obs[-1]['reads']) if len(obs) == len(probe['steps']) else b''
            except Exception:   # noqa: BLE001
                data = b''
            steps.append(['deliver', st[1], cuts_for(st[2], data, rng)])
        else:
            steps.append(st)
    out = dict(case)
    out['steps'] = steps
    return out


HOSTILE_META_VALUES = ['x', 1, [1], {'a': 1}, None, True]


def hostile_packets(rng, meta_keys, n):
    """(signature, bytes) : JSON mutations of a call packet and of a value packet"""
    out = []
    base_call = {'id': 7, 'name': 'foo', 'args': [1], 'kwargs': {'k': 2}, 'success': False, 'failure': False,
                 'channels': ['app'], 'notify': False, 'meta': {}}
    base_val = {'id': 0, 'errors': False, 'value': 'v', 'meta': {}}
    swaps = [None, True, 5, 0, 's', '', [], [1], [[1]], [[1, 2]], ['ab'], {}, {'a': 1}, [{'a': 1}], 1.5, 'ab', [[[1], 2]], [[1, 2, 3]]]
    for _ in range(n):
        r = rng.random()
        if r < 0.3:
            k = rng.choice(meta_keys)
            v = rng.choice(HOSTILE_META_VALUES)
            d = json.loads(json.dumps(base_call))
            d['meta'] = {k: v}
            sig = f'meta:{k}'
            if rng.random() < 0.2:
                k2 = rng.choice(meta_keys)
                d['meta'][k2] = rng.choice(HOSTILE_META_VALUES)
                sig = 'meta:' + '+'.join(sorted({k, k2}))
            out.append((sig, json.dumps(d).encode() + DELIM))
        elif r < 0.4:
            k = rng.choice(meta_keys)
            d = json.loads(json.dumps(base_val))
            d['meta'] = {k: rng.choice(HOSTILE_META_VALUES)}
            out.append((f'value-meta:{k}', json.dumps(d).encode() + DELIM))
        elif r < 0.65:
            d = json.loads(json.dumps(base_call))
            f = rng.choice(list(d))
            if rng.random() < 0.25:
                del d[f]
                out.append((f'missing:{f}', json.dumps(d).encode() + DELIM))
            else:
                v = rng.choice(swaps)
                d[f] = v
                out.append((f'{f}:{type(v).__name__}', json.dumps(d).encode() + DELIM))
        elif r < 0.75:
            d = json.loads(json.dumps(base_val))
            f = rng.choice(list(d))
            if rng.random() < 0.25:
                del d[f]
                out.append((f'value-missing:{f}', json.dumps(d).encode() + DELIM))
            else:
                v = rng.choice(swaps)
                d[f] = v
                out.append((f'value-{f}:{type(v).__name__}', json.dumps(d).encode() + DELIM))
        elif r < 0.85:
            raw = json.dumps(base_call).encode()
            k = rng.randint(0, len(raw))
            mut = rng.choice([raw[:k], raw[:k] + b'\xff' + raw[k:], raw[:k] + b'}' + raw[k:], raw + raw, b'[' * 30 + b']' * 30,
                              b'', b' ', b'nul', b'null', b'"s"', b'[1,2]', b'{"value": 1}', raw[:k] + b'~~~' + raw[k:]])
            out.append(('malformed', mut + DELIM))
        elif r < 0.9:
            out.append(('deep-nesting', b'[' * 100000 + DELIM))
        elif r < 0.95:
            d = json.loads(json.dumps(base_call))
            d['args'] = ['A' * rng.randint(5000, 20000)]
            out.append(('oversized', json.dumps(d).encode() + DELIM))
        else:
            d = json.loads(json.dumps(base_call))
            d['channels'] = rng.choice([[[1]], [{}], [1, 2], [None], 'ab', {'a': 1}, [['a']], [True]])
            out.append((f'channels:{type(d["channels"][0]).__name__ if isinstance(d["channels"], list) else type(d["channels"]).__name__}',
                        json.dumps(d).encode() + DELIM))
    return out


def hostile_session(rng, meta_keys):
    """P0 has a call in flight to P2; the peer of P0 (resp. of P2) sends hostile bytes; then legit traffic goes on"""
    sig, data = hostile_packets(rng, meta_keys, 1)[0]
    target = rng.choice([0, 2])
    cuts = []
    if rng.random() < 0.4 and len(data) > 4:
        cuts = sorted(set(rng.randint(1, len(data) - 1) for _ in range(rng.randint(1, 3))))
    steps = [['send', 0, gen_event(rng, names=['foo', 'bar'], plain=True), False],
             ['hostile', target, hx(data), cuts],
             ['deliver', 0, []], ['deliver', 2, []],
             ['send', 2, gen_event(rng, names=['foo', 'bar'], plain=True), False],
             ['deliver', 2, []], ['deliver', 0, []]]
    return {'kind': 'session', 'tag': 'hostile', 'hostile': True, 'hostile_sig': sig, 'fw': {}, 'steps': steps}


def codec_cases(ctx, meta_keys):
    rng = ctx.rng
    cases = []
    base_call = {'id': 7, 'name': 'foo', 'args': [1], 'kwargs': {'k': 2}, 'success': False, 'failure': False,
                 'channels': ['app'], 'notify': False, 'meta': {}}
    swaps = [None, True, False, 5, 0, 0.0, 's', '', [], [1], [[1]], [[1, 2]], ['ab'], ['abc'], {}, {'a': 1}, {'a': 1, 'b': 2},
             [{'a': 1, 'b': 2}], 1.5, 'ab', [[[1], 2]], [[1, 2, 3]], [['a', 1], ['b', 2]], [['a', 1], 5], 'a\x00b', {'self': 1},
             {'cls': 1}, {'_name': 2}, [['__x', 1]], [[None, 1]], [[True, 1]]]
    for f in list(base_call):
        d = dict(base_call)
        del d[f]
        cases.append({'kind': 'codec', 'packet': d})
        for v in swaps:
            d = dict(base_call)
            d[f] = v
            cases.append({'kind': 'codec', 'packet': d})
    for k in meta_keys:
        for v in (HOSTILE_META_VALUES if ctx.tier == 'thorough' or ctx.searching else ['x', [1]]):
            d = dict(base_call)
            d['meta'] = {k: v}
            cases.append({'kind': 'codec', 'packet': d})
    for v in [None, 1, 's', [1], [base_call]]:
        cases.append({'kind': 'codec', 'packet': v})
    for _ in range(60 * ctx.scale):
        d = dict(base_call)
        for f in rng.sample(list(d), rng.randint(1, 3)):
            d[f] = rng.choice(swaps)
        cases.append({'kind': 'codec', 'packet': d})
    return cases


def roundtrip_cases(ctx):
    rng = ctx.rng
    cases = []
    for k in KEYS:
        cases.append({'kind': 'roundtrip', 'id': 0, 'event': {'name': 'foo', 'args': [], 'kwargs': {k: 1}, 'success': False,
                                                              'failure': False, 'notify': False, 'channels': [], 'attrs': {}}})
    for s in STRS:
        cases.append({'kind': 'roundtrip', 'id': 1, 'event': {'name': 'foo', 'args': [s, {s: s}], 'kwargs': {}, 'success': True,
                                                              'failure': False, 'notify': False, 'channels': ['c' + s] if '\x00' not in s else [],
                                                              'attrs': {'tag': s}}})
    for _ in range(80 * ctx.scale):
        cases.append({'kind': 'roundtrip', 'id': rng.choice([0, 1, 5, 2 ** 33]), 'event': gen_event(rng, big=rng.random() < 0.1)})
    return cases


def split_cases(ctx):
    rng = ctx.rng
    cases = []
    for n in range(0, 8):
        for tup in itertools.product([b'~', b'a'], repeat=n):
            cases.append({'kind': 'split', 'data': hx(b''.join(tup))})
    for _ in range(100 * ctx.scale):
        s = b''.join(rng.choice([b'~', b'~~', b'~~~', b'a', b'{"x":1}', b'~~~~']) for _ in range(rng.randint(0, 10)))
        cases.append({'kind': 'split', 'data': hx(s)})
    return cases


def session_cases(ctx, meta_keys):
    rng = ctx.rng
    cases = []
    s = ctx.scale
    # corner events first: the shapes the framing / classification proofs split on
    for k in ['value', 'name', 'cls', '_name', 'id']:
        cases.append({'kind': 'session', 'tag': 'corner', 'fw': {}, 'seed': 1, 'steps': [
            ['send', 2, {'name': 'foo', 'args': [], 'kwargs': {k: 1}, 'success': False, 'failure': False, 'notify': False,
                         'channels': [], 'attrs': {}}, False], ['deliver', 2, 'none'], ['deliver', 0, 'none']]})
    for arg in ['~~~', 'x~~~y', '"value":', {'value': 1}, '~', 'A' * 5000]:
        for mode in ['none', 'one', 'in-delim', 'after-body', 'buffer-4096']:
            cases.append({'kind': 'session', 'tag': 'corner', 'fw': {}, 'seed': 2, 'steps': [
                ['send', 2, {'name': 'foo', 'args': [arg], 'kwargs': {}, 'success': False, 'failure': False, 'notify': False,
                             'channels': [], 'attrs': {}}, False], ['deliver', 2, mode], ['deliver', 0, mode]]})
    # a remote handler that fails
    cases.append({'kind': 'session', 'tag': 'corner', 'fw': {}, 'seed': 3, 'steps': [
        ['send', 2, {'name': 'boom', 'args': [], 'kwargs': {}, 'success': False, 'failure': False, 'notify': False,
                     'channels': [], 'attrs': {}}, False], ['deliver', 2, 'none'], ['deliver', 0, 'none']]})
    # two peers of one process use the same ids
    plain = {'name': 'foo', 'args': [1], 'kwargs': {}, 'success': False, 'failure': False, 'notify': False, 'channels': [], 'attrs': {}}
    plain2 = dict(plain, name='bar', args=[2])
    cases.append({'kind': 'session', 'tag': 'multi', 'fw': {}, 'seed': 4, 'steps': [
        ['send', 0, plain, False], ['send', 1, plain2, False], ['deliver', 0, 'none'], ['deliver', 1, 'none'],
        ['deliver', 2, 'none'], ['deliver', 3, 'none']]})
    cases.append({'kind': 'session', 'tag': 'multi', 'fw': {}, 'seed': 5, 'steps': [
        ['send', 2, plain, False], ['send', 3, plain2, False], ['deliver', 2, 'none'], ['deliver', 3, 'none'],
        ['deliver', 0, 'none'], ['deliver', 1, 'none']]})
    # firewalls that decide by arguments / keyword arguments / an attribute / a call counter (both tiers, all of them)
    cases.extend(fw_directed_cases())
    for _ in range(60 * s):
        cases.append(legit_session(rng, s))
    for _ in range(25 * s):
        cases.append(legit_session(rng, s, tag='multi', multi=True))
    for _ in range(12 * s):
        cases.append(legit_session(rng, s, tag='big', big=True, fw={}))
    for _ in range(120 * s):
        cases.append(hostile_session(rng, meta_keys))
    for i in range(30 * s):
        cases.append(fw_rich_session(rng, multi=i % 5 == 4))
    return cases


def meta_key_pool():
    """attribute names of a *dispatched* event + what the core reads + a few free names"""
    from circuits import Component, Event, Manager
    seen = {}

    class Probe(Component):
        def foo(self, event):
            seen['keys'] = set(dir(event)) | set(event.__dict__)
    m = Manager()
    Probe().register(m)
    e = Event.create('foo')
    e.complete = True
    m.fire(e)
    while len(m):
        m.flush()
    keys = set(k for k in seen.get('keys', set()) if not k.startswith('__'))
    keys |= set(critical_names()) | set(CRITICAL_BASE) | {'free_attr', '_private', 'remote_finish', 'errors', '__dunder'}
    return sorted(keys)


# ---------------------------------------------------------------------------------------
# two-party / k-connection composition: `cvdriver node2` executes CV.Node.n2_stepK (the definition the
# once_and_back theorems are about) on a scenario; the same scenario runs on real Protocol endpoints
#
# case = {'kind': 'two', 'conns': [{'calls': [event spec…], 'beh': [{'ret': v, 'sets': {…}} | {'raise': 1} …],
#                                   'fw': {'sa'|'ra'|'sb'|'rb': [names, chans, rules]}} …],
#         'steps': [[j, 'send'] | [j, 'dab', n] | [j, 'ans', id] | [j, 'dba', n] | [j, 'poll', id] …]}
# connection j: caller A_j = client protocol P(2+j), callee B_j = server-mode protocol P(j); B_0 and B_1 share
# one manager (every result_handler of the process sees every `_success` event).  `dab n` hands the next <= n
# bytes of the stream A->B to B.add_buffer; n may be a cut *mode* (resolved against the bytes the implementation
# wrote, then stored as a number: a replay file is concrete).  `ans id`: the handler of the running call `id`
# returns / raises (the handlers are real generator handlers, parked until the scenario releases them).
# ---------------------------------------------------------------------------------------

TWO_MODES = ['all', 'all', 'half', 'one', 'to-delim', 'in-delim-1', 'in-delim-2', 'past-delim', 'two-packets-minus', 'rand']


def make_app2():
    from circuits import Component, handler

    class App2(Component):
        channel = 'app'

        def init(self):
            self.writes = []
            self.log = []
            self.seen = []
            self.on_call = None      # callback: event -> record {'released', 'beh'}
            self.swallow_connect = False
            self.errors = []

        @handler('write', channel='*', priority=50)
        def _on_write(self, event, *a):
            self.writes.append(a)
            event.stop()             # the socket component (if any) must not see it: the harness is the wire

        @handler('connect', channel='*', priority=50)
        def _on_connect(self, event, *a):
            if self.swallow_connect:
                event.stop()         # a client's connection request: the harness is the network

        @handler('exception', channel='*', priority=50)
        def _on_exception(self, *a, **kw):
            self.errors.append(a[:2])

        @handler(channel='*', priority=1000)
        def _on_any(self, event, *args, **kwargs):
            if 'node_call_id' in event.__dict__ and not any(event is x for x in self.seen):
                self.seen.append(event)
                self.log.append(event)
                return self._run(event, self.on_call(event))
            return None

        @staticmethod
        def _run(event, rec):
            while not rec['released']:
                yield
            beh = rec['beh']
            if 'raise' in beh:
                raise RuntimeError('handler failed')
            for k, v in beh.get('sets', {}).items():
                setattr(event, k, v)
            if beh.get('ret') is not None:
                yield beh['ret']

    return App2


class SockDouble:
    """what the server side knows a connection by"""

    def __init__(self, name):
        self.name = name
        self.open = True

    def getpeername(self):
        if not self.open:
            raise OSError('closed')
        return ('127.0.0.1', 1)

    def __repr__(self):
        return f'<sock {self.name}>'


class NodeWorld:
    """the same two-party world built from the real components: one `Node` with a `Server` (one Protocol per
    accepted connection, created by its `connect` handler) on manager 0, one `Node` with a peer added by
    `Node.add` (`Client` + Protocol) per caller on managers 1, 2.  The harness is the network: `write` events are
    captured and stopped, bytes arrive as `read` events on the components' channels, connection requests of the
    clients are swallowed; nothing is ever polled (the managers are flushed by hand, never ticked)."""

    def __init__(self, fw, app_cls, nconn):
        from circuits import Manager
        from circuits.net.events import connect
        from circuits.node import Node
        self.managers = [Manager(), Manager(), Manager()]
        self.apps = [app_cls().register(m) for m in self.managers]
        self.dead = None
        self.nconn = nconn
        self.socks = [SockDouble(f'S{j}') for j in range(nconn)]
        preds = {}
        for p in range(4):
            f = fw.get(str(p))
            if f:
                preds[p] = (make_pred(f['send']), make_pred(f['recv']))

        def server_fw(side):
            def pred(event, sock):
                p = preds.get(int(sock.name[1:])) if isinstance(sock, SockDouble) else None
                return p[side](event, sock) if p else True
            return pred
        kw = {'send_event_firewall': server_fw(0), 'receive_event_firewall': server_fw(1)} if any(p < 2 for p in preds) else {}
        self.node_b = Node(port=0, server_ip='127.0.0.1', **kw).register(self.managers[0])
        self.nodes_a, self.clients, self.chans = [], [], []
        for j in range(nconn):
            self.apps[1 + j].swallow_connect = True
            na = Node().register(self.managers[1 + j])
            kw = {}
            if 2 + j in preds:
                kw = {'send_event_firewall': preds[2 + j][0], 'receive_event_firewall': preds[2 + j][1]}
            chan = na.add(f'peer{j}', '127.0.0.1', self.node_b.server.port or 1, reconnect_delay=0, **kw)
            self.nodes_a.append(na)
            self.chans.append(chan)
            self.clients.append(na.get_peer(f'peer{j}'))
        self.drain_all()
        for j in range(nconn):
            self.managers[0].fire(connect(self.socks[j], '127.0.0.1', 40000 + j), self.node_b.channel)
        self.drain_all()
        for app in self.apps:
            app.writes.clear()

    drain_all = World.drain_all

    def proto(self, p):
        if p < 2:
            return self.node_b.server._Server__protocols[self.socks[p]]
        return self.clients[p - 2]._Client__protocol

    def send(self, j, e):
        """the generator a caller waits on: `Client.send`, or - for every other call that names its channels - the
        one `Node.__on_remote` returns for a `remote` event (it overwrites the call's channels with those the
        `remote` event was fired on: the harness fires it on the call's own)"""
        self.nsend = getattr(self, 'nsend', 0) + 1
        chans = tuple(getattr(e, 'channels', ()) or ())
        if self.nsend % 2 == 0 and chans and all(isinstance(c, str) for c in chans):
            from circuits.node.events import remote
            m = self.managers[1 + j]
            ev = remote(e, f'peer{j}')
            m.fire(ev, *chans)
            self.drain_all()
            for task in list(m._tasks):
                if task[0] is ev:
                    self.via_remote = getattr(self, 'via_remote', 0) + 1
                    return task[1]
            raise RuntimeError('Node did not turn the remote event into a send')
        return self.clients[j].send(e)

    def deliver(self, p, seg):
        """-> name of the exception that left the read handler, or False"""
        from circuits.net.events import read
        app = self.apps[0 if p < 2 else p - 1]
        n = len(app.errors)
        if p < 2:
            self.managers[0].fire(read(self.socks[p], seg), self.node_b.channel)
        else:
            self.managers[p - 1].fire(read(seg), self.chans[p - 2])
        self.drain_all()
        return app.errors[n][0].__name__ if len(app.errors) > n else False

    def take_writes(self):
        out = {}
        for h, app in enumerate(self.apps):
            for a in app.writes:
                if len(a) == 2:
                    p, data = int(a[0].name[1:]), a[1]
                else:
                    p, data = 1 + h, a[0]
                out.setdefault(p, []).append(data)
            app.writes.clear()
        return out

    def close(self):
        """the peers go away: the server forgets their protocols; every descriptor the components opened is closed"""
        import os
        from circuits.core.pollers import BasePoller
        from circuits.net.events import disconnect
        gone = None
        try:
            for sk in self.socks:
                sk.open = False
            self.managers[0].fire(disconnect(self.socks[0]), self.node_b.channel)
            self.drain_all()
            gone = len(self.node_b.server.get_socks())
        except Exception:   # noqa: BLE001
            pass
        for m in self.managers:
            for c in list(m.components) + [x for c in m.components for x in _walk(c)]:
                sk = getattr(c, '_sock', None)
                if sk is not None and hasattr(sk, 'close'):
                    try:
                        sk.close()
                    except Exception:   # noqa: BLE001
                        pass
                if isinstance(c, BasePoller):
                    for fd in (c._ctrl_recv, c._ctrl_send):
                        try:
                            os.close(fd) if isinstance(fd, int) else fd.close()
                        except Exception:   # noqa: BLE001
                            pass
        return gone


def _walk(c):
    for x in c.components:
        yield x
        yield from _walk(x)


def two_fw(case):
    fw = {}
    for j, c in enumerate(case['conns']):
        f = c.get('fw') or {}
        if f:
            fw[str(2 + j)] = {'send': f.get('sa', [[], []]), 'recv': f.get('ra', [[], []])}
            fw[str(j)] = {'send': f.get('sb', [[], []]), 'recv': f.get('rb', [[], []])}
    return fw


def two_cut(mode, data, rng):
    n = len(data)
    if isinstance(mode, int):
        return mode
    d = data.find(DELIM)
    if mode == 'half':
        return max(1, n // 2)
    if mode == 'one':
        return 1
    if mode == 'rand':
        return rng.randint(1, max(1, n))
    if d >= 0:
        if mode == 'to-delim':
            return max(1, d)
        if mode == 'in-delim-1':
            return d + 1
        if mode == 'in-delim-2':
            return d + 2
        if mode == 'past-delim':
            return d + 3
        if mode == 'two-packets-minus':
            d2 = data.find(DELIM, d + 3)
            return (d2 + 3 - rng.randint(1, 4)) if d2 >= 0 else d + 3 + rng.randint(0, 3)
    return max(1, n)


def split_packets(data):
    """written bytes -> [(canonical JSON of the packet | raw hex, length)]; every write ends with the delimiter"""
    out = []
    pieces = data.split(DELIM)
    tail = pieces.pop()
    for p in pieces:
        try:
            out.append((canon(json.loads(p.decode('utf-8'))), len(p)))
        except (ValueError, Unsupported):
            out.append(('raw:' + p.hex(), len(p)))
    if tail:
        out.append(('unterminated:' + tail.hex(), len(tail)))
    return out


def run_two_impl(case):
    """runs the scenario on the implementation; returns (concrete steps, per-step observations, end state)"""
    import random
    from circuits import Event
    base = set(dir(Event())) | BASE_EXTRA
    rng = random.Random(case.get('seed', 0))
    nconn = len(case['conns'])
    if case.get('backend') == 'node':
        w = NodeWorld(two_fw(case), make_app2(), nconn)
    else:
        w = World(two_fw(case), app_cls=make_app2())
    records = {j: [] for j in range(nconn)}       # dispatch records per connection, in order

    def on_call(event):
        sock = event.__dict__.get('node_sock')
        sock = getattr(sock, 'name', sock)
        j = int(sock[1:]) if isinstance(sock, str) else -1
        recs = records.setdefault(j, [])
        k = len(recs)
        behs = case['conns'][j]['beh'] if 0 <= j < nconn else []
        rec = {'j': j, 'k': k, 'id': event.__dict__.get('node_call_id'), 'released': False,
               'beh': behs[k] if k < len(behs) else {'ret': None, 'sets': {}}, 'event': event, 'logged': False}
        recs.append(rec)
        return rec
    for app in w.apps:
        app.on_call = on_call
    ab = {j: b'' for j in range(nconn)}
    ba = {j: b'' for j in range(nconn)}
    todo = {j: list(c['calls']) for j, c in enumerate(case['conns'])}
    gens = {}        # (j, id) -> [generator, event, state]
    sent = {j: [] for j in range(nconn)}          # (id or None, spec) per send step, None = blocked
    reads = {p: [] for p in range(4)}             # segments handed to add_buffer of protocol p
    steps, obs = [], []

    def pending_table(p):
        try:
            evs = getattr(w.proto(p), '_Protocol__events')
            out = []
            for cid, ev in evs.items():
                fin = hasattr(ev, 'remote_finish')
                out.append((cid, fin, ev.value.value if fin else None, getattr(ev, 'errors', None) if fin else None))
            return out
        except Exception:   # noqa: BLE001  (not observable: the comparison is skipped)
            return None

    for st in case['steps']:
        j, kind = st[0], st[1]
        ob = {'fires': [], 'aborted': False, 'yields': [], 'dead': None}
        before = {q: pending_table(2 + q) for q in range(nconn)}
        st2 = list(st)
        if kind == 'send':
            if todo[j]:
                spec = todo[j].pop(0)
                e = make_event(spec)
                g = w.send(j, e)
                try:
                    first = next(g)
                except StopIteration:
                    first = 'stop'
                ob['first'] = 'none' if first is None else ('stop' if first == 'stop' else 'value')
                ob['gen'] = (g, e, spec)
                w.drain_all()
        elif kind in ('dab', 'dba'):
            box = ab if kind == 'dab' else ba
            n = two_cut(st[2], box[j], rng)
            st2[2] = n
            seg, box[j] = box[j][:n], box[j][n:]
            q = j if kind == 'dab' else 2 + j
            reads[q].append(seg)
            ob['aborted'] = w.deliver(q, seg)
        elif kind == 'ans':
            rec = next((r for r in records[j] if not r['released'] and r['id'] == st[2]
                        and isinstance(r['id'], int) and not isinstance(r['id'], bool)), None)
            if rec is not None:
                rec['released'] = True
                m = w.managers[0]
                try:
                    for _ in range(4):
                        for task in list(m._tasks):
                            m.processTask(*task)
                except Exception as ex:   # noqa: BLE001
                    w.dead = f'{type(ex).__name__}: {ex}'
                w.drain_all()
        elif kind == 'poll':
            key = (j, st[2])
            if key in gens and gens[key][2] == 'waiting':
                g, e, _s = gens[key]
                try:
                    v = next(g)
                    if v is not None:
                        gens[key][2] = 'done'
                        ob['yields'].append((st[2], v.value, getattr(e, 'errors', '<unset>')))
                except StopIteration:
                    gens[key][2] = 'stopped'
                    ob['yields'].append((st[2], '<generator stopped>', None))
                except Exception as ex:   # noqa: BLE001
                    gens[key][2] = 'error'
                    ob['yields'].append((st[2], f'<generator raised {type(ex).__name__}>', None))
        # ---- what the step did
        ob['writes'] = {}
        for p, ws in w.take_writes().items():
            data = b''.join(ws)
            q, direction = (p, 'ba') if p < 2 else (p - 2, 'ab')
            if q < nconn:
                (ba if direction == 'ba' else ab)[q] += data
            ob['writes'][(q, direction)] = data
        for q in range(nconn):
            for rec in records[q]:
                if not rec['logged']:
                    rec['logged'] = True
                    rec['obs'] = event_obs(rec['event'], base)
                    ob['fires'].append((q, rec['k'], rec['id'], rec['obs']))
        for h, app in enumerate(w.apps):
            app.log.clear()
        ob['resolved'] = {}
        for q in range(nconn):
            now = pending_table(2 + q)
            if now is None or before[q] is None:
                ob['resolved'][q] = None
                continue
            was = {cid for cid, fin, _v, _e in before[q] if fin}
            ob['resolved'][q] = [(cid, v, er) for cid, fin, v, er in now if fin and cid not in was]
        if kind == 'send' and 'gen' in ob:
            g, e, spec = ob.pop('gen')
            data = ob['writes'].get((j, 'ab'), b'')
            cid = None
            if data:
                try:
                    cid = json.loads(data.split(DELIM)[0].decode('utf-8')).get('id')
                except Exception:   # noqa: BLE001
                    cid = None
                gens[(j, cid)] = [g, e, 'waiting']
            sent[j].append((cid if data else None, spec))
        ob['dead'] = w.dead
        steps.append(st2)
        obs.append(ob)
        if w.dead:
            break
    end = {'ab': {j: len(ab[j]) for j in range(nconn)}, 'ba': {j: len(ba[j]) for j in range(nconn)},
           'todo': {j: len(todo[j]) for j in range(nconn)},
           'apending': {j: pending_table(2 + j) for j in range(nconn)},
           'bpending': {j: pending_table(j) for j in range(nconn)},
           'running': {j: [r['id'] for r in records[j] if not r['released']] for j in range(nconn)},
           'fired': {j: len(records[j]) for j in range(nconn)},
           'records': records, 'gens': gens, 'sent': sent, 'reads': reads}
    end['protocols_after_disconnect'] = w.close()
    end['via_remote'] = getattr(w, 'via_remote', 0)
    return steps, obs, end


def two_fw_ops(j, f):
    ops = []
    for side in ('sa', 'ra', 'sb', 'rb'):
        if side in f:
            names, chans, rules = fw_parts(f[side])
            ops.append(f"fw {j} {side} {' '.join(sx(x) for x in names)} | {' '.join(sx(x) for x in chans)} | "
                       f"{' '.join(rule_token(r) for r in rules)}")
    return ops


def two_step_op(st):
    j, kind = st[0], st[1]
    return f'step {j} {kind}' + (f' {st[2]}' if len(st) > 2 else '')


def dknow_line(obj):
    """oracle encode . json.dumps for the tree `obj` (key order as given)"""
    return f"dknow {hx(json.dumps(obj).encode('utf-8'))} {jt(obj)}"


def parse_two_answer(a):
    """model observation of one step -> {j: {'fires','wab','wba','resolved','yields','aborted'}}"""
    out = {}
    if a == 'nothing':
        return out
    for part in a.split(' || '):
        head, _, rest = part.partition(' ')
        d = out.setdefault(int(head[1:]), {'fires': [], 'wab': b'', 'wba': b'', 'resolved': [], 'yields': [], 'aborted': False})
        for item in rest.split(' ; '):
            kind, _, body = item.strip().partition(' ')
            toks = body.split()
            if kind == 'fire':
                cid, k = jdec_tokens(toks, 1)
                ev, _ = jdec_tokens(toks, k)
                d['fires'].append((int(toks[0]), cid, ev))
            elif kind in ('wab', 'wba'):
                d[kind] += unhx(body)
            elif kind == 'resolve':
                v, k = jdec_tokens(toks, 1)
                er, _ = jdec_tokens(toks, k)
                d['resolved'].append((int(toks[0]), v, er))
            elif kind == 'yield':
                vals, k = jdec_tokens(toks, 1)
                er, _ = jdec_tokens(toks, k)
                d['yields'].append((int(toks[0]), vals, er))
            elif kind == 'aborted':
                d['aborted'] = True
    return out


def safe_canon(x):
    try:
        return canon(x)
    except Unsupported:
        return 'unsupported:' + repr(x)


def eval_two(ctx, cases):
    from circuits.node.utils import META_EXCLUDE
    excl = sorted(META_EXCLUDE)
    live = []
    for case in cases:
        co = eval_one_peers(ctx, case, excl) if case.get('peers') else \
            eval_one_sym(ctx, case, excl) if case.get('sym') else eval_one_two(ctx, case, excl)
        try:
            live.append((co, next(co)))
        except StopIteration:
            pass
        except Unsupported:
            ctx.count('skipped', 'unsupported-json')
    while live:
        answers = ctx.driver.batch('node2', [ops for _co, ops in live])
        nxt = []
        for (co, _ops), ans in zip(live, answers):
            try:
                nxt.append((co, co.send(ans)))
            except StopIteration:
                pass
            except Unsupported:
                ctx.count('skipped', 'unsupported-json')
        live = nxt


def eval_one_two(ctx, case, excl):
    with ctx.guard(case, what='node endpoints (two-party scenario)'):
        steps, obs, end = run_two_impl(case)
    case = dict(case, steps=steps)            # cut modes resolved: what is recorded is concrete
    nconn = len(case['conns'])
    # ---- model ops
    pre = ['excl ' + ' '.join(sx(n) for n in excl)]
    for j, c in enumerate(case['conns']):
        pre.append(f'conn {j}')
        pre += two_fw_ops(j, c.get('fw') or {})
        for spec in c['calls']:
            pre.append(f'call {j} {jt(ev_to_j(spec))}')
        for b in c['beh']:
            pre.append(f'beh {j} raise' if 'raise' in b else f"beh {j} ret {jt([b.get('ret'), b.get('sets', {})])}")
    oracle = {}
    for p in range(4):
        total = b''.join(end['reads'][p])
        if total:
            ends, n = [], 0
            for seg in end['reads'][p]:
                n += len(seg)
                ends.append(n)
            for piece, ln in candidate_pieces(total, ends).items():
                if ln is None:
                    raise Unsupported()
                oracle[ln] = True
    for ob in obs:
        for data in ob['writes'].values():
            for piece in data.split(DELIM)[:-1]:
                try:
                    oracle[dknow_line(json.loads(piece.decode('utf-8')))] = True
                except (ValueError, Unsupported):
                    pass
    body = [two_step_op(st) for st in steps] + [f'dump {j}' for j in range(nconn)]
    rounds = 0
    while True:
        ops = pre + sorted(oracle) + body
        answers = yield ops
        head = len(ops) - len(body)
        bad = [(o, a) for o, a in zip(ops[:head], answers[:head]) if a != 'ok']
        if bad:
            ctx.disagree(case, {'where': 'node2.preamble', 'op': bad[0][0][:300], 'model': bad[0][1]})
            ctx.case(case, validated=False)
            return
        ans = answers[head:]
        need = next((a for a in ans if a.startswith('need')), None)
        if need is None:
            break
        rounds += 1
        if rounds > 40:
            ctx.disagree(case, {'where': 'node2.oracle', 'model': 'keeps asking: ' + need[:200]})
            ctx.case(case, validated=False)
            return
        if need.startswith('needd '):
            ln = dknow_line(jdec(need[6:]))
        else:
            ln = oracle_line(unhx(need.split()[1]))
        if ln is None:
            raise Unsupported()
        oracle[ln] = True
    ctx.count('two_oracle_rounds', min(rounds, 10))
    # ---- compare the observation streams step by step
    ok = True
    violations = []

    def differ(i, what, impl, model):
        nonlocal ok
        if ok:
            ctx.disagree(case, {'where': f'node2.{what}', 'step': i, 'op': two_step_op(steps[i]) if i < len(steps) else 'dump',
                                'impl': str(impl)[:400], 'model': str(model)[:400]})
        ok = False
    for i, (st, ob, a) in enumerate(zip(steps, obs, ans)):
        if a == 'bad-op':
            differ(i, 'bad-op', '', a)
            break
        if ob['dead']:
            violations.append((f'loop-killed(two-party:{st[1]})', f'flush()/processTask raised {ob["dead"]} in step {i} {st}'))
            break
        m = parse_two_answer(a)
        for q in range(nconn):
            mq = m.get(q, {'fires': [], 'wab': b'', 'wba': b'', 'resolved': [], 'yields': [], 'aborted': False})
            # events executed on B, in order, with their arguments
            i_f = [(k, safe_canon(cid), safe_canon(ev)) for (qq, k, cid, ev) in ob['fires'] if qq == q]
            m_f = []
            for k, cid, ev in mq['fires']:
                ev = dict(ev, success=True)
                if not ev['channels']:
                    ev['channels'] = ['node']
                m_f.append((k, safe_canon(cid), safe_canon(ev)))
            if i_f != m_f:
                differ(i, f'fires[{q}]', i_f, m_f)
            # bytes per direction
            for direction, key in (('ab', 'wab'), ('ba', 'wba')):
                iw = ob['writes'].get((q, direction), b'')
                if split_packets(iw) != split_packets(mq[key]):
                    differ(i, f'bytes[{q},{direction}]', iw[:200], mq[key][:200])
            # answers accepted by A
            if ob['resolved'][q] is not None:
                # (the error flag is compared where an observer reads it: at the caller's resumption and in the
                # residue - an `errors` attribute of the answering event overrides the packet's flag)
                i_r = sorted((cid, safe_canon(v)) for cid, v, _er in ob['resolved'][q])
                m_r = sorted((cid, safe_canon(v)) for cid, v, _er in mq['resolved'])
                if i_r != m_r:
                    differ(i, f'resolved[{q}]', i_r, m_r)
            else:
                ctx.count('two_residue', 'pending table not observable')
            # results delivered to the waiting caller
            i_y = [(cid, safe_canon(v), safe_canon(er)) for cid, v, er in ob['yields']] if q == st[0] else []
            m_y = [(cid, safe_canon(vals[0]) if len(vals) == 1 else 'several:' + safe_canon(vals), safe_canon(er))
                   for cid, vals, er in mq['yields']]
            if i_y != m_y:
                differ(i, f'yield[{q}]', i_y, m_y)
            if bool(ob['aborted']) != mq['aborted'] and q == st[0]:
                differ(i, f'aborted[{q}]', ob['aborted'], mq['aborted'])
    # ---- residue
    if ok and not any(ob['dead'] for ob in obs) and len(obs) == len(steps):
        for q, a in enumerate(ans[len(steps):]):
            t = a.split()
            f = {t[k]: t[k + 1] for k in (0, 2, 4, 6, 8, 10, 12)}
            rest = t[14:]
            idx = {name: rest.index(name) for name in ('apending', 'bpending', 'running', 'fired')} if a != 'bad-op' else {}
            if not idx:
                differ(len(steps), 'dump', '', a)
                continue
            apend = jdec(' '.join(rest[idx['apending'] + 1:idx['bpending']]))
            bpend = jdec(' '.join(rest[idx['bpending'] + 1:idx['running']]))
            running = jdec(' '.join(rest[idx['running'] + 1:idx['fired']]))
            mfired = int(rest[idx['fired'] + 1])
            impl_res = {'todo': end['todo'][q], 'ab': end['ab'][q], 'ba': end['ba'][q], 'fired': end['fired'][q],
                        'running': [safe_canon(x) for x in end['running'][q]]}
            model_res = {'todo': int(f['todo']), 'ab': int(f['ab']), 'ba': int(f['ba']), 'fired': mfired,
                         'running': [safe_canon(x) for x in running]}
            for side, mp in (('apending', apend), ('bpending', bpend)):
                ip = end[side][q]
                if ip is None:
                    continue
                impl_res[side] = sorted((cid, fin, safe_canon(v) if fin else '-', safe_canon(er) if fin else '-') for cid, fin, v, er in ip)
                model_res[side] = sorted((cid, fin, (safe_canon(vals[0]) if len(vals) == 1 else 'several') if fin else '-',
                                          safe_canon(er) if fin else '-') for cid, fin, vals, er, _m in mp)
            if impl_res != model_res:
                differ(len(steps), f'residue[{q}]', impl_res, model_res)
    # ---- spec on impl: what C19 states, judged on the implementation's own behaviour
    violations += judge_two(ctx, case, steps, obs, end)
    seen = set()
    for sig, what in violations:
        if sig not in seen:
            seen.add(sig)
            ctx.violate(case, sig, what)
    ctx.count('two_connections', nconn)
    ctx.count('two_calls', sum(len(c['calls']) for c in case['conns']))
    ctx.count('two_steps', min(len(steps) // 5 * 5, 60))
    for st in steps:
        ctx.count('two_step_kind', st[1])
    ctx.count('two_kind', case.get('tag', 'two'))
    ctx.count('two_backend', 'Node + Server + Client components' if case.get('backend') == 'node' else 'bare Protocol objects')
    if case.get('backend') == 'node':
        ctx.count('two_sends_via_remote_event', end['via_remote'])
        ctx.count('two_server_protocols_after_disconnect', end['protocols_after_disconnect'])
    ctx.case(case, nontrivial=len(steps) > 4, validated=ok)


def two_quiescent(end, q):
    return end['todo'][q] == 0 and end['ab'][q] == 0 and end['ba'][q] == 0 and not end['running'][q]


def judge_two(ctx, case, steps, obs, end):
    """executed exactly once / never when the firewall rejects / result and error flag back to the caller that
    waits for this call on this connection / the answer travels on the calling connection only"""
    out = []
    nconn = len(case['conns'])
    fwp = {}
    for j, c in enumerate(case['conns']):
        f = c.get('fw') or {}
        fwp[j] = {side: pure_pred({'0': {'send': f.get(side, [[], []]), 'recv': f.get(side, [[], []])}}, 0, 'send')
                  for side in ('sa', 'rb')} if f else None
    for i, (st, ob) in enumerate(zip(steps, obs)):
        for (q, direction), data in ob['writes'].items():
            if data and q != st[0]:
                out.append(('answer-on-other-connection',
                            f'step {i} {st} on connection {st[0]} wrote {len(data)} bytes on connection {q} ({direction})'))
    for q in range(nconn):
        recs = end['records'].get(q, [])
        sent = end['sent'][q]
        spred = fwp[q]['sa'] if fwp[q] else (lambda e: (True, None))
        rpred = fwp[q]['rb'] if fwp[q] else (lambda e: (True, None))
        written = []
        for cid, spec in sent:
            v, why = spred(make_event(spec))
            ctx.count('two_firewall_send', 'no firewall' if not fwp[q] else 'allowed' if v else f'rejected({why})')
            if not v and cid is not None:
                out.append((fw_sig('sent-despite-firewall', why), f'connection {q}: call {spec["name"]} rejected by the send firewall was written'))
            if cid is not None:
                written.append((cid, spec))
        got_ids = [r['id'] for r in recs]
        allowed, refused = [], {}
        for cid, spec in written:
            v, why = rpred(make_event(spec))
            ctx.count('two_firewall_recv', 'no firewall' if not fwp[q] else 'allowed' if v else f'rejected({why})')
            if v:
                allowed.append(cid)
            else:
                refused[cid] = why
                if cid in got_ids:
                    out.append((fw_sig('dispatched-despite-firewall', why),
                                f'connection {q}: call {cid} {spec["name"]}{tuple(spec["args"])!r} rejected by the receive firewall ({why}) was dispatched'))
        twice = sorted({c for c in got_ids if got_ids.count(c) > 1}, key=str)
        if twice:
            out.append(('executed-twice', f'connection {q}: calls {twice} were dispatched more than once'))
        disp_allowed = [c for c in got_ids if c in allowed]
        if not twice and disp_allowed != allowed[:len(disp_allowed)]:
            out.append(('executed-out-of-order', f'connection {q}: dispatched {got_ids}, sent (allowed) {allowed}'))
        if any(c not in allowed and c not in refused for c in got_ids):
            out.append(('executed-unsent', f'connection {q}: dispatched {got_ids}, sent {[c for c, _ in written]}'))
        quiet = two_quiescent(end, q)
        ctx.count('two_end', 'at rest' if quiet else 'in flight')
        if quiet and not twice and disp_allowed != allowed:
            out.append(('packet-dropped(two-party)', f'connection {q}: calls {[c for c in allowed if c not in got_ids]} were never dispatched'))
        # exactly one result packet per call id travels back
        back = []
        for st, ob in zip(steps, obs):
            for piece in ob['writes'].get((q, 'ba'), b'').split(DELIM)[:-1]:
                try:
                    pk = json.loads(piece.decode('utf-8'))
                except ValueError:
                    continue
                if isinstance(pk, dict) and 'value' in pk and 'name' not in pk:
                    back.append(pk.get('id'))
        for cid, spec in written:
            n_res = sum(1 for x in back if x == cid and type(x) is type(cid))
            ctx.count('two_result_packets_per_call', min(n_res, 3))
            ctx.count('two_call_flags_channels', dup_sig(spec)[len('duplicate-result('):-1])
            if n_res > 1:
                out.append((dup_sig(spec), f'connection {q}: {n_res} result packets travelled back for call {cid} ({spec["name"]})'))
        # results: whatever a waiting caller was resumed with
        yields = {}
        for st, ob in zip(steps, obs):
            if st[0] == q:
                for cid, v, er in ob['yields']:
                    yields.setdefault(cid, []).append((v, er))
        by_id = {}
        for r in recs:
            by_id.setdefault(r['id'], []).append(r)
        for cid, got in yields.items():
            if len(got) > 1:
                out.append(('wrong-result-routing(resumed-twice)', f'connection {q}: the caller of call {cid} was resumed {len(got)} times'))
            v, er = got[0]
            if isinstance(v, str) and v.startswith('<generator'):
                out.append((f'wrong-result-routing({v.strip("<>").replace(" ", "-")})', f'connection {q}: generator of call {cid}: {v}'))
                continue
            if cid in refused:
                ctx.count('two_result', 'empty answer of the firewall')
                if v is not None or er is not False:
                    out.append(('wrong-result-routing(rejected-call-got-a-result)',
                                f'connection {q}: call {cid} is rejected by the receive firewall: the caller must get the empty answer, it got {got[0]!r}'))
                continue
            rs = by_id.get(cid, [])
            if len(rs) != 1:
                continue
            beh = rs[0]['beh']
            if 'raise' in beh or not rs[0]['released']:
                out.append(('wrong-result-routing(result-without-return)',
                            f'connection {q}: the caller of call {cid} was resumed with {got[0]!r} although its handler has not returned'))
                continue
            want_er = beh.get('sets', {}).get('errors', False) if 'errors' in beh.get('sets', {}) else False
            ctx.count('two_result', 'value of the handler')
            if safe_canon(v) != safe_canon(beh.get('ret')):
                out.append(('wrong-result-routing(value)', f'connection {q}: call {cid} got {v!r}, its handler returned {beh.get("ret")!r}'))
            elif safe_canon(er) != safe_canon(want_er):
                out.append(('wrong-result-routing(error-flag)', f'connection {q}: call {cid} got the error flag {er!r}, expected {want_er!r}'))
        # at rest and every caller polled afterwards: nobody is left waiting, except for the known finding
        if quiet and case.get('closed'):
            for (j, cid), (g, e, state) in end['gens'].items():
                if j != q:
                    continue
                rs = by_id.get(cid, [])
                if state == 'waiting':
                    if len(rs) == 1 and 'raise' in rs[0]['beh']:
                        ctx.count('two_result', 'no answer: handler raised')
                        out.append(('no-answer(remote-handler-raised)',
                                    f'connection {q}: call {cid} failed on the peer and the sender was never told'))
                    else:
                        out.append(('wrong-result-routing(no-answer)', f'connection {q}: generator of call {cid} never got an answer'))
    return out


def gen_two_fw(rng, kind):
    """firewalls of a connection; `kind`: 'none' | 'recv' (B rejects some calls) | 'send' | 'both'"""
    if kind == 'none':
        return {}
    def one():
        r = rng.random()
        if r < 0.35:
            return [rng.sample(['bar', 'x'], rng.randint(1, 2)), [], []]
        if r < 0.5:
            return [[], ['secret'], []]
        if r < 0.7:
            return [[], [], [dict(FW_RULES['args'])]]
        if r < 0.85:
            return [[], [], [dict(FW_RULES['kwargs'])]]
        return [[], [], [dict(FW_RULES['attribute'])]]
    f = {}
    if kind in ('recv', 'both'):
        f['rb'] = one()
    if kind in ('send', 'both'):
        f['sa'] = one()
    return f


def gen_two_event(rng, fwkind):
    if fwkind == 'none' or rng.random() < 0.3:
        e = gen_event(rng, names=['foo', 'bar', 'hello_world', 'x'], big=rng.random() < 0.03)
        return e
    # events whose verdict differs although name and channels agree
    ok = rng.random() < 0.6
    e = {'name': rng.choice(['foo', 'foo', 'bar']), 'args': [rng.randint(0, 100) if ok else rng.randint(101, 9000)],
         'kwargs': {'mode': 'ro'} if ok or rng.random() < 0.3 else rng.choice([{'mode': 'rw'}, {}]),
         'success': rng.random() < 0.2, 'failure': rng.random() < 0.2, 'notify': False,
         'channels': rng.choice(CHANNEL_POOL + [['secret']]) if rng.random() < 0.4 else [],
         'attrs': {'token': 'sesame'} if ok or rng.random() < 0.3 else rng.choice([{'token': 'guess'}, {}])}
    if rng.random() < 0.3:
        e['args'].append(gen_value(rng, 1))
    return e


def gen_two_case(rng, nconn=1, ncalls=None, fwkind='none', raising=0.0, closed=True, tag='two'):
    conns = []
    for j in range(nconn):
        n = rng.randint(1, 5) if ncalls is None else ncalls
        calls = [gen_two_event(rng, fwkind) for _ in range(n)]
        beh = []
        for k in range(n):
            if rng.random() < raising:
                beh.append({'raise': 1})
            else:
                sets = {}
                r = rng.random()
                if r < 0.15:
                    sets = {rng.choice(ATTR_KEYS): gen_value(rng, 1)}
                elif r < 0.2:
                    sets = {'errors': rng.choice([True, 'E', 1])}
                elif r < 0.25:
                    sets = {rng.choice(['__hidden', 'remote_finish']): gen_value(rng, 2)}
                beh.append({'ret': rng.choice([['V', j, k, gen_value(rng, 1)], ['V', j, k], None, 0, '', f'v{j}.{k}~~~']), 'sets': sets})
        conns.append({'calls': calls, 'beh': beh, 'fw': gen_two_fw(rng, fwkind)})
    # a random schedule: enabled-ish steps, per connection counters are only a guide (any step is legal)
    steps = []
    sent = [0] * nconn
    length = rng.randint(2, 10 * nconn + 4 * sum(len(c['calls']) for c in conns))
    for _ in range(length):
        j = rng.randrange(nconn)
        r = rng.random()
        if r < 0.25 and sent[j] < len(conns[j]['calls']):
            steps.append([j, 'send'])
            sent[j] += 1
        elif r < 0.5:
            steps.append([j, 'dab', rng.choice(TWO_MODES)])
        elif r < 0.68:
            steps.append([j, 'ans', rng.randrange(max(1, sent[j]))])
        elif r < 0.88:
            steps.append([j, 'dba', rng.choice(TWO_MODES)])
        else:
            steps.append([j, 'poll', rng.randrange(max(1, sent[j]))])
    if closed:
        # bring every connection to rest: remaining sends, everything delivered, handlers return in a random
        # order (interleaved answers), everything delivered, every caller resumed
        for j in rng.sample(range(nconn), nconn):
            n = len(conns[j]['calls'])
            steps += [[j, 'send']] * (n - sent[j])
            steps += [[j, 'dab', rng.choice(['all', 'half', 'in-delim-1', 'past-delim'])] for _ in range(rng.randint(1, 3))]
            steps += [[j, 'dab', 10 ** 9]]
        order = [(j, k) for j in range(nconn) for k in range(len(conns[j]['calls']))]
        rng.shuffle(order)
        for j, k in order:
            steps.append([j, 'ans', k])
            if rng.random() < 0.4:
                steps.append([j, 'dba', rng.choice(TWO_MODES)])
        for j in range(nconn):
            steps += [[j, 'dba', 10 ** 9]]
        polls = [(j, k) for j in range(nconn) for k in range(len(conns[j]['calls']))]
        rng.shuffle(polls)
        steps += [[j, 'poll', k] for j, k in polls]
    return {'kind': 'two', 'tag': tag, 'conns': conns, 'steps': steps, 'closed': closed, 'seed': rng.randint(0, 2 ** 30)}


def two_directed_cases():
    """interleaved answers: k calls in flight, handlers return in every order (k <= 3) / reversed (k = 4, 5), the
    stream B->A cut inside the delimiters; the same ids on two connections"""
    cases = []
    plain = lambda i: {'name': 'foo', 'args': [i], 'kwargs': {}, 'success': False, 'failure': False, 'notify': False,  # noqa: E731
                       'channels': [], 'attrs': {}}
    for k in (2, 3):
        for order in itertools.permutations(range(k)):
            for cut in ('all', 'in-delim-1', 'one'):
                steps = [[0, 'send']] * k + [[0, 'dab', 10 ** 9]] + [[0, 'ans', i] for i in order]
                steps += ([[0, 'dba', cut]] * (40 if cut == 'one' else 2 * k)) + [[0, 'dba', 10 ** 9]] + [[0, 'poll', i] for i in range(k)]
                cases.append({'kind': 'two', 'tag': 'two-interleaved', 'closed': True, 'seed': 7, 'steps': steps,
                              'conns': [{'calls': [plain(i) for i in range(k)],
                                         'beh': [{'ret': ['V', 0, i], 'sets': {}} for i in range(k)], 'fw': {}}]})
    for k in (4, 5):
        steps = [[0, 'send']] * k + [[0, 'dab', 'half'], [0, 'dab', 10 ** 9]] + [[0, 'ans', i] for i in reversed(range(k))]
        steps += [[0, 'dba', 'in-delim-2']] * k + [[0, 'dba', 10 ** 9]] + [[0, 'poll', i] for i in range(k)]
        cases.append({'kind': 'two', 'tag': 'two-interleaved', 'closed': True, 'seed': 8, 'steps': steps,
                      'conns': [{'calls': [plain(i) for i in range(k)],
                                 'beh': [{'ret': ['V', 0, i], 'sets': {}} for i in range(k)], 'fw': {}}]})
    # two connections, same ids, answers crossed
    for order in itertools.permutations([(0, 0), (0, 1), (1, 0), (1, 1)]):
        steps = [[0, 'send'], [1, 'send'], [0, 'send'], [1, 'send'], [0, 'dab', 10 ** 9], [1, 'dab', 10 ** 9]]
        steps += [[j, 'ans', i] for j, i in order] + [[0, 'dba', 10 ** 9], [1, 'dba', 10 ** 9]]
        steps += [[j, 'poll', i] for j in (0, 1) for i in (0, 1)]
        cases.append({'kind': 'two', 'tag': 'two-connections-same-ids', 'closed': True, 'seed': 9, 'steps': steps,
                      'conns': [{'calls': [plain(i) for i in range(2)], 'beh': [{'ret': ['V', j, i], 'sets': {}} for i in range(2)],
                                 'fw': {}} for j in range(2)]})
    # a rejecting receive firewall between accepted calls; a handler that raises between two that return
    fw = {'rb': [[], [], [dict(FW_RULES['args'])]]}
    for pattern in ('ARA', 'RAR', 'RRA', 'AAR'):
        calls = [dict(plain(0), args=[(5 if c == 'A' else 5000) + i]) for i, c in enumerate(pattern)]
        steps = [[0, 'send']] * 3 + [[0, 'dab', 'in-delim-1'], [0, 'dab', 10 ** 9], [0, 'ans', 2], [0, 'ans', 0], [0, 'ans', 1],
                                     [0, 'dba', 'half'], [0, 'dba', 10 ** 9]] + [[0, 'poll', i] for i in range(3)]
        cases.append({'kind': 'two', 'tag': 'two-firewall', 'closed': True, 'seed': 10, 'steps': steps,
                      'conns': [{'calls': calls, 'beh': [{'ret': ['V', 0, i], 'sets': {}} for i in range(3)], 'fw': fw}]})
    steps = [[0, 'send']] * 3 + [[0, 'dab', 10 ** 9], [0, 'ans', 1], [0, 'ans', 2], [0, 'ans', 0], [0, 'dba', 10 ** 9]] + \
        [[0, 'poll', i] for i in range(3)]
    cases.append({'kind': 'two', 'tag': 'two-raising', 'closed': True, 'seed': 11, 'steps': steps,
                  'conns': [{'calls': [plain(i) for i in range(3)],
                             'beh': [{'ret': 'a', 'sets': {}}, {'raise': 1}, {'ret': 'c', 'sets': {}}], 'fw': {}}]})
    return cases


# ---------------------------------------------------------------------------------------
# symmetric composition (case kind `two` with 'sym': True): `cvdriver node2` executes CV.Node.ns_step - both ends of ONE
# connection originate calls at the same time: end A = client protocol P2, end B = server-mode protocol P0.  Each
# direction has one byte stream (calls of the writer and its answers to the peer's calls, in write order), cut
# per scenario.  Send firewalls of both ends are part of the scenario.
#
# case = {'kind': 'two', 'sym': True, 'callsA': [...], 'callsB': [...], 'behA': [...], 'behB': [...] (behX: handlers
#         run on end X), 'fw': {'sa','ra','sb','rb'}, 'steps': [[side, 'send'] | [side, 'del', n] | [side, 'ans', id] |
#         [side, 'poll', id]]}; side 'a' | 'b' = the end that acts (`del`: it reads the next <= n bytes its peer wrote)
# ---------------------------------------------------------------------------------------

SYM_P = {'a': 2, 'b': 0}
SYM_PEER = {'a': 'b', 'b': 'a'}


def sym_as_two(case):
    return dict(case, conns=[{'calls': case['callsA'], 'beh': case['behB'], 'fw': case.get('fw') or {}}])


def run_sym_impl(case):
    import random
    from circuits import Event
    from circuits.core import Value
    base = set(dir(Event())) | BASE_EXTRA
    rng = random.Random(case.get('seed', 0))
    c2 = sym_as_two(case)
    if case.get('backend') == 'node':
        w = NodeWorld(two_fw(c2), make_app2(), 1)
    else:
        w = World(two_fw(c2), app_cls=make_app2())
    records = {'a': [], 'b': []}

    def on_call(event):
        sock = event.__dict__.get('node_sock')       # server side: the connection's socket; client side: no socket
        side = 'b' if isinstance(sock, (str, SockDouble)) else 'a'
        recs = records[side]
        k = len(recs)
        behs = case['beh' + side.upper()]
        rec = {'side': side, 'k': k, 'id': event.__dict__.get('node_call_id'), 'released': False,
               'beh': behs[k] if k < len(behs) else {'ret': None, 'sets': {}}, 'event': event, 'logged': False}
        recs.append(rec)
        return rec
    for app in w.apps:
        app.on_call = on_call
    own = {x: getattr(w.proto(SYM_P[x]), 'channel', 'node') for x in 'ab'}
    out = {'a': b'', 'b': b''}                  # written by that end, not yet read by its peer
    todo = {'a': list(case['callsA']), 'b': list(case['callsB'])}
    gens = {}                                   # (side, id) -> [generator, event, state]
    sent = {'a': [], 'b': []}                   # (id | None, spec, blocked-observation | None) per send step
    reads = {0: [], 2: []}
    steps, obs = [], []

    def pending_table(x):
        try:
            evs = getattr(w.proto(SYM_P[x]), '_Protocol__events')
            return [(cid, hasattr(ev, 'remote_finish'), ev.value.value if hasattr(ev, 'remote_finish') else None,
                     getattr(ev, 'errors', None) if hasattr(ev, 'remote_finish') else None) for cid, ev in evs.items()]
        except Exception:   # noqa: BLE001
            return None

    def sender(x, e):
        if x == 'a':
            return w.send(0, e)
        if case.get('backend') == 'node':
            return w.node_b.server.send(e, w.socks[0])
        return w.proto(0).send(e)

    for st in case['steps']:
        x, kind = st[0], st[1]
        ob = {'fires': [], 'aborted': False, 'yields': [], 'dead': None, 'blocked': None}
        before = {q: pending_table(q) for q in 'ab'}
        st2 = list(st)
        if kind == 'send':
            if todo[x]:
                spec = todo[x].pop(0)
                e = make_event(spec)
                g = sender(x, e)
                try:
                    first = next(g)
                except StopIteration:
                    first = 'stop'
                if first is None:
                    ob['gen'] = (g, e, spec, None)
                else:
                    # the generator did not go to sleep: what is the caller resumed with, and does the generator end?
                    what = 'stopped-at-once' if isinstance(first, str) else \
                        ('empty-value' if isinstance(first, Value) and first.value is None and not first.errors else
                         f'value:{getattr(first, "value", first)!r}')
                    try:
                        nxt = next(g)
                        what += '+more:' + ('None' if nxt is None else 'value')
                    except StopIteration:
                        what += '+ended'
                    except Exception as ex:   # noqa: BLE001
                        what += f'+raised:{type(ex).__name__}'
                    ob['gen'] = (g, e, spec, what)
                w.drain_all()
        elif kind == 'del':
            peer = SYM_PEER[x]
            n = two_cut(st[2], out[peer], rng)
            st2[2] = n
            seg, out[peer] = out[peer][:n], out[peer][n:]
            reads[SYM_P[x]].append(seg)
            ob['aborted'] = w.deliver(SYM_P[x], seg)
        elif kind == 'ans':
            rec = next((r for r in records[x] if not r['released'] and r['id'] == st[2]
                        and isinstance(r['id'], int) and not isinstance(r['id'], bool)), None)
            if rec is not None:
                rec['released'] = True
                m = w.managers[0 if x == 'b' else 1]
                try:
                    for _ in range(4):
                        for task in list(m._tasks):
                            if task[0] is rec['event']:     # only this handler (the senders' generators are polled by `poll`)
                                m.processTask(*task)
                except Exception as ex:   # noqa: BLE001
                    w.dead = f'{type(ex).__name__}: {ex}'
                w.drain_all()
        elif kind == 'poll':
            key = (x, st[2])
            if key in gens and gens[key][2] == 'waiting':
                g, e, _s = gens[key]
                try:
                    v = next(g)
                    if v is not None:
                        gens[key][2] = 'done'
                        ob['yields'].append((x, st[2], v.value, getattr(e, 'errors', '<unset>')))
                except StopIteration:
                    gens[key][2] = 'stopped'
                    ob['yields'].append((x, st[2], '<generator stopped>', None))
                except Exception as ex:   # noqa: BLE001
                    gens[key][2] = 'error'
                    ob['yields'].append((x, st[2], f'<generator raised {type(ex).__name__}>', None))
        ob['writes'] = {}
        for p, ws in w.take_writes().items():
            data = b''.join(ws)
            side = 'b' if p == 0 else 'a' if p == 2 else f'p{p}'
            if side in out:
                out[side] += data
            ob['writes'][side] = data
        for q in 'ab':
            for rec in records[q]:
                if not rec['logged']:
                    rec['logged'] = True
                    rec['obs'] = event_obs(rec['event'], base)
                    ob['fires'].append((q, rec['k'], rec['id'], rec['obs']))
        for app in w.apps:
            app.log.clear()
        ob['resolved'] = {}
        for q in 'ab':
            now = pending_table(q)
            if now is None or before[q] is None:
                ob['resolved'][q] = None
                continue
            was = {cid for cid, fin, _v, _e in before[q] if fin}
            ob['resolved'][q] = [(cid, v) for cid, fin, v, _er in now if fin and cid not in was]
        if kind == 'send' and 'gen' in ob:
            g, e, spec, what = ob.pop('gen')
            data = ob['writes'].get(x, b'')
            cid = None
            for piece in data.split(DELIM)[:-1]:
                try:
                    pk = json.loads(piece.decode('utf-8'))
                    if isinstance(pk, dict) and 'name' in pk:
                        cid = pk.get('id')
                except Exception:   # noqa: BLE001
                    pass
            if what is None:
                gens[(x, cid)] = [g, e, 'waiting']
            else:
                ob['blocked'] = (x, what)
            sent[x].append((cid, spec, what, bool(data)))
        ob['dead'] = w.dead
        steps.append(st2)
        obs.append(ob)
        if w.dead:
            break
    end = {'out': {q: len(out[q]) for q in 'ab'}, 'todo': {q: len(todo[q]) for q in 'ab'},
           'pending': {q: pending_table(q) for q in 'ab'},
           'running': {q: [r['id'] for r in records[q] if not r['released']] for q in 'ab'},
           'fired': {q: len(records[q]) for q in 'ab'}, 'records': records, 'gens': gens, 'sent': sent, 'reads': reads,
           'own': own}
    w.close()
    end['via_remote'] = getattr(w, 'via_remote', 0)
    return steps, obs, end


def parse_sym_answer(a):
    d = {q: {'fires': [], 'w': b'', 'resolved': [], 'yields': [], 'blocked': 0} for q in 'ab'}
    d['aborted'] = False
    if a == 'nothing':
        return d
    for item in a.split(' ; '):
        toks = item.strip().split()
        kind = toks[0]
        if kind == 'aborted':
            d['aborted'] = True
            continue
        q, toks = toks[1], toks[2:]
        if kind == 'fire':
            cid, k = jdec_tokens(toks, 1)
            ev, _ = jdec_tokens(toks, k)
            d[q]['fires'].append((int(toks[0]), cid, ev))
        elif kind == 'w':
            d[q]['w'] += unhx(toks[0])
        elif kind == 'resolve':
            v, k = jdec_tokens(toks, 1)
            d[q]['resolved'].append((int(toks[0]), v))
        elif kind == 'yield':
            vals, k = jdec_tokens(toks, 1)
            er, _ = jdec_tokens(toks, k)
            d[q]['yields'].append((int(toks[0]), vals, er))
        elif kind == 'blocked':
            d[q]['blocked'] += 1
    return d


def eval_one_sym(ctx, case, excl):
    with ctx.guard(case, what='node endpoints (symmetric scenario)'):
        steps, obs, end = run_sym_impl(case)
    case = dict(case, steps=steps)
    pre = ['excl ' + ' '.join(sx(n) for n in excl), 'conn 0'] + two_fw_ops(0, case.get('fw') or {})
    for side in 'ab':
        for spec in case['calls' + side.upper()]:
            pre.append(f'scall {side} {jt(ev_to_j(spec))}')
        for b in case['beh' + side.upper()]:
            pre.append(f'sbeh {side} raise' if 'raise' in b else f"sbeh {side} ret {jt([b.get('ret'), b.get('sets', {})])}")
    oracle = {}
    for p in (0, 2):
        total = b''.join(end['reads'][p])
        if total:
            ends, n = [], 0
            for seg in end['reads'][p]:
                n += len(seg)
                ends.append(n)
            for piece, ln in candidate_pieces(total, ends).items():
                if ln is None:
                    raise Unsupported()
                oracle[ln] = True
    for ob in obs:
        for data in ob['writes'].values():
            for piece in data.split(DELIM)[:-1]:
                try:
                    oracle[dknow_line(json.loads(piece.decode('utf-8')))] = True
                except (ValueError, Unsupported):
                    pass
    body = [f'sstep {st[0]} {st[1]}' + (f' {st[2]}' if len(st) > 2 else '') for st in steps] + ['sdump']
    rounds = 0
    while True:
        ops = pre + sorted(oracle) + body
        answers = yield ops
        head = len(ops) - len(body)
        bad = [(o, a) for o, a in zip(ops[:head], answers[:head]) if a != 'ok']
        if bad:
            ctx.disagree(case, {'where': 'node2.sym.preamble', 'op': bad[0][0][:300], 'model': bad[0][1]})
            ctx.case(case, validated=False)
            return
        ans = answers[head:]
        need = next((a for a in ans if a.startswith('need')), None)
        if need is None:
            break
        rounds += 1
        if rounds > 40:
            ctx.disagree(case, {'where': 'node2.sym.oracle', 'model': 'keeps asking: ' + need[:200]})
            ctx.case(case, validated=False)
            return
        ln = dknow_line(jdec(need[6:])) if need.startswith('needd ') else oracle_line(unhx(need.split()[1]))
        if ln is None:
            raise Unsupported()
        oracle[ln] = True
    ok = True
    violations = []

    def differ(i, what, impl, model):
        nonlocal ok
        if ok:
            ctx.disagree(case, {'where': f'node2.sym.{what}', 'step': i, 'op': body[i] if i < len(body) else 'sdump',
                                'impl': str(impl)[:400], 'model': str(model)[:400]})
        ok = False
    for i, (st, ob, a) in enumerate(zip(steps, obs, ans)):
        if a == 'bad-op':
            differ(i, 'bad-op', '', a)
            break
        if ob['dead']:
            violations.append((f'loop-killed(symmetric:{st[1]})', f'flush()/processTask raised {ob["dead"]} in step {i} {st}'))
            break
        m = parse_sym_answer(a)
        for q in 'ab':
            mq = m[q]
            i_f = [(k, safe_canon(cid), safe_canon(ev)) for (qq, k, cid, ev) in ob['fires'] if qq == q]
            m_f = []
            for k, cid, ev in mq['fires']:
                ev = dict(ev, success=True)
                if not ev['channels']:
                    ev['channels'] = [end['own'][q]]
                m_f.append((k, safe_canon(cid), safe_canon(ev)))
            if i_f != m_f:
                differ(i, f'fires[{q}]', i_f, m_f)
            iw = ob['writes'].get(q, b'')
            if split_packets(iw) != split_packets(mq['w']):
                differ(i, f'bytes[{q}]', iw[:200], mq['w'][:200])
            if ob['resolved'][q] is not None:
                i_r = sorted((cid, safe_canon(v)) for cid, v in ob['resolved'][q])
                m_r = sorted((cid, safe_canon(v)) for cid, v in mq['resolved'])
                if i_r != m_r:
                    differ(i, f'resolved[{q}]', i_r, m_r)
            i_y = [(cid, safe_canon(v), safe_canon(er)) for qq, cid, v, er in ob['yields'] if qq == q]
            m_y = [(cid, safe_canon(vals[0]) if len(vals) == 1 else 'several:' + safe_canon(vals), safe_canon(er))
                   for cid, vals, er in mq['yields']]
            if i_y != m_y:
                differ(i, f'yield[{q}]', i_y, m_y)
            # the model's `blocked` = the generator yields one empty Value at once and ends
            i_b = ob['blocked'][1] if ob['blocked'] and ob['blocked'][0] == q else None
            m_b = 'empty-value+ended' if mq['blocked'] else None
            if i_b != m_b:
                differ(i, f'blocked[{q}]', i_b, m_b)
        if any(k not in 'ab' for k in ob['writes']):
            differ(i, 'bytes[other protocol]', sorted(ob['writes']), '')
        if bool(ob['aborted']) != m['aborted']:
            differ(i, 'aborted', ob['aborted'], m['aborted'])
    if ok and not any(ob['dead'] for ob in obs) and len(obs) == len(steps):
        a = ans[len(steps)]
        t = a.split()
        for q in 'ab':
            try:
                ix = {name: t.index(q + name) for name in ('todo', 'out', 'buf', 'nid', 'fired', 'blocked', 'pending', 'running')}
                nxt = t.index('btodo') if q == 'a' else len(t)
                pend = jdec(' '.join(t[ix['pending'] + 1:ix['running']]))
                running = jdec(' '.join(t[ix['running'] + 1:nxt]))
            except (ValueError, IndexError):
                differ(len(steps), 'sdump', '', a)
                break
            impl_res = {'todo': end['todo'][q], 'out': end['out'][q], 'fired': end['fired'][q],
                        'running': [safe_canon(x) for x in end['running'][q]],
                        'blocked': sum(1 for _c, _s, what, _d in end['sent'][q] if what is not None)}
            model_res = {'todo': int(t[ix['todo'] + 1]), 'out': int(t[ix['out'] + 1]), 'fired': int(t[ix['fired'] + 1]),
                         'running': [safe_canon(x) for x in running], 'blocked': int(t[ix['blocked'] + 1])}
            ip = end['pending'][q]
            if ip is not None:
                impl_res['pending'] = sorted((cid, fin, safe_canon(v) if fin else '-', safe_canon(er) if fin else '-') for cid, fin, v, er in ip)
                model_res['pending'] = sorted((cid, fin, (safe_canon(vals[0]) if len(vals) == 1 else 'several') if fin else '-',
                                               safe_canon(er) if fin else '-') for cid, fin, vals, er, _m in pend)
            if impl_res != model_res:
                differ(len(steps), f'residue[{q}]', impl_res, model_res)
    violations += judge_sym(ctx, case, steps, obs, end)
    seen = set()
    for sig, what in violations:
        if sig not in seen:
            seen.add(sig)
            ctx.violate(case, sig, what)
    ctx.count('sym_calls_A_to_B', len(case['callsA']))
    ctx.count('sym_calls_B_to_A', len(case['callsB']))
    ctx.count('sym_steps', min(len(steps) // 5 * 5, 80))
    for st in steps:
        ctx.count('sym_step_kind', f'{st[0]}:{st[1]}')
    ctx.count('two_kind', case.get('tag', 'symmetric'))
    ctx.count('sym_backend', 'Node + Server + Client components' if case.get('backend') == 'node' else 'bare Protocol objects')
    # both directions in flight at the same moment: a stream that carried calls and answers
    for q in 'ab':
        kinds = set()
        for ob in obs:
            for piece in ob['writes'].get(q, b'').split(DELIM)[:-1]:
                try:
                    pk = json.loads(piece.decode('utf-8'))
                    kinds.add('call' if isinstance(pk, dict) and 'name' in pk else 'answer')
                except ValueError:
                    kinds.add('raw')
        ctx.count('sym_stream_content', '+'.join(sorted(kinds)) or 'empty')
    ctx.case(case, nontrivial=len(steps) > 4, validated=ok)


def judge_sym(ctx, case, steps, obs, end):
    """C19 on the symmetric scenario, judged on the implementation's own behaviour, per direction X -> Y: a call rejected by
    X's send firewall is never written and its caller is resumed at once with the empty value (generator ends); accepted
    calls are executed on Y exactly once, in order, never when Y's receive firewall rejects; the caller of call k of X is
    resumed once, with the value the handler run on Y for *that* call returned - never with the result of Y's call k"""
    out = []
    f = case.get('fw') or {}
    def pred(side):
        return pure_pred({'0': {'send': f.get(side, [[], []]), 'recv': f.get(side, [[], []])}}, 0, 'send') if side in f \
            else (lambda e: (True, None))
    for i, (st, ob) in enumerate(zip(steps, obs)):
        for k in ob['writes']:
            if k not in 'ab' and ob['writes'][k]:
                out.append(('symmetric-answer-on-other-connection', f'step {i} {st}: bytes written by protocol {k}'))
    for x in 'ab':
        y = SYM_PEER[x]
        spred, rpred = pred('s' + x), pred('r' + y)
        recs = end['records'][y]
        written = []
        for cid, spec, what, wrote in end['sent'][x]:
            v, why = spred(make_event(spec))
            ctx.count('sym_firewall_send', f'{x}: ' + ('no firewall' if ('s' + x) not in f else 'allowed' if v else f'rejected({why})'))
            if not v:
                if wrote:
                    out.append((fw_sig('symmetric-sent-despite-firewall', why),
                                f'end {x}: call {spec["name"]} rejected by the send firewall ({why}) was written'))
                ctx.count('sym_blocked_caller', str(what))
                if what is None:
                    out.append(('symmetric-blocked-caller-left-waiting', f'end {x}: the generator of the blocked call {spec["name"]} went to sleep'))
                elif what.startswith('stopped-at-once'):
                    pass        # the generator ends without a value: nobody waits, nothing forged (differs from the model only)
                elif not what.startswith('empty-value'):
                    out.append(('symmetric-blocked-caller-forged-result', f'end {x}: the caller of the blocked call {spec["name"]} got {what}'))
                elif not what.endswith('+ended'):
                    out.append(('symmetric-blocked-caller-generator-continues', f'end {x}: blocked call {spec["name"]}: {what}'))
            elif what is not None:
                out.append(('symmetric-allowed-call-not-sent', f'end {x}: call {spec["name"]} passes the send firewall; send() answered {what}'))
            if v and cid is not None:
                written.append((cid, spec))
        got_ids = [r['id'] for r in recs]
        allowed, refused = [], {}
        for cid, spec in written:
            v, why = rpred(make_event(spec))
            ctx.count('sym_firewall_recv', f'{y}: ' + ('no firewall' if ('r' + y) not in f else 'allowed' if v else f'rejected({why})'))
            if v:
                allowed.append(cid)
            else:
                refused[cid] = why
                if cid in got_ids:
                    out.append((fw_sig('symmetric-dispatched-despite-firewall', why), f'end {y}: call {cid} of {x} rejected by the receive firewall was dispatched'))
        ids_sent = [c for c, _ in written]
        if len(set(map(repr, ids_sent))) != len(ids_sent):      # (gaps are the model's business, not the property's)
            out.append(('symmetric-call-id-reused', f'end {x} numbered its transmitted calls {ids_sent}: two calls in flight cannot be told apart'))
        twice = sorted({c for c in got_ids if got_ids.count(c) > 1}, key=str)
        if twice:
            out.append(('symmetric-executed-twice', f'end {y}: calls {twice} of {x} were dispatched more than once'))
        disp = [c for c in got_ids if c in allowed]
        if not twice and disp != allowed[:len(disp)]:
            out.append(('symmetric-executed-out-of-order', f'end {y}: dispatched {got_ids}, {x} sent (allowed) {allowed}'))
        if any(c not in allowed and c not in refused for c in got_ids):
            out.append(('symmetric-executed-unsent', f'end {y}: dispatched {got_ids}, {x} sent {ids_sent}'))
        quiet = all(end['todo'][q] == 0 and end['out'][q] == 0 and not end['running'][q] for q in 'ab')
        if x == 'a':
            ctx.count('sym_end', 'at rest' if quiet else 'in flight')
        if quiet and not twice and disp != allowed:
            out.append(('symmetric-packet-dropped', f'end {y}: calls {[c for c in allowed if c not in got_ids]} of {x} were never dispatched'))
        back = []
        for ob in obs:
            for piece in ob['writes'].get(y, b'').split(DELIM)[:-1]:
                try:
                    pk = json.loads(piece.decode('utf-8'))
                except ValueError:
                    continue
                if isinstance(pk, dict) and 'value' in pk and 'name' not in pk:
                    back.append(pk.get('id'))
        for cid, spec in written:
            n_res = sum(1 for z in back if z == cid and type(z) is type(cid))
            ctx.count('sym_result_packets_per_call', min(n_res, 3))
            if n_res > 1:
                out.append(('symmetric-' + dup_sig(spec), f'{n_res} result packets travelled back to {x} for its call {cid}'))
        yields = {}
        for ob in obs:
            for q, cid, v, er in ob['yields']:
                if q == x:
                    yields.setdefault(cid, []).append((v, er))
        by_id = {}
        for r in recs:
            by_id.setdefault(r['id'], []).append(r)
        mine = {}
        for r in end['records'][x]:
            mine.setdefault(r['id'], []).append(r)        # handlers run on x for y's calls (same id space!)
        for cid, got in yields.items():
            if len(got) > 1:
                out.append(('symmetric-resumed-twice', f'end {x}: the caller of call {cid} was resumed {len(got)} times'))
            v, er = got[0]
            if isinstance(v, str) and v.startswith('<generator'):
                out.append((f'symmetric-wrong-result({v.strip("<>").replace(" ", "-")})', f'end {x}: generator of call {cid}: {v}'))
                continue
            if cid in refused:
                ctx.count('sym_result', 'empty answer of the peer firewall')
                if v is not None or er is not False:
                    out.append(('symmetric-wrong-result(rejected-call-got-a-result)', f'end {x}: call {cid} was rejected by the peer, the caller got {got[0]!r}'))
                continue
            rs = by_id.get(cid, [])
            if len(rs) != 1:
                continue
            beh = rs[0]['beh']
            if 'raise' in beh or not rs[0]['released']:
                out.append(('symmetric-wrong-result(result-without-return)',
                            f'end {x}: the caller of call {cid} was resumed with {got[0]!r} although its handler on {y} has not returned'))
                continue
            want_er = beh.get('sets', {}).get('errors', False) if 'errors' in beh.get('sets', {}) else False
            ctx.count('sym_result', 'value of the handler')
            if safe_canon(v) != safe_canon(beh.get('ret')):
                other = mine.get(cid, [])
                if other and safe_canon(v) == safe_canon(other[0]['beh'].get('ret')):
                    out.append(('symmetric-ids-collide(result-of-the-peers-call-with-the-same-id)',
                                f'end {x}: call {cid} got {v!r} = the result of the call {cid} that {y} made'))
                else:
                    out.append(('symmetric-wrong-result(value)', f'end {x}: call {cid} got {v!r}, its handler on {y} returned {beh.get("ret")!r}'))
            elif safe_canon(er) != safe_canon(want_er):
                out.append(('symmetric-wrong-result(error-flag)', f'end {x}: call {cid} got the error flag {er!r}, expected {want_er!r}'))
        if quiet and case.get('closed'):
            for (q, cid), (g, e, state) in end['gens'].items():
                if q != x or state != 'waiting':
                    continue
                rs = by_id.get(cid, [])
                if len(rs) == 1 and 'raise' in rs[0]['beh']:
                    ctx.count('sym_result', 'no answer: handler raised')
                    out.append(('no-answer(remote-handler-raised)', f'end {x}: call {cid} failed on the peer and the sender was never told'))
                else:
                    out.append(('symmetric-no-answer', f'end {x}: generator of call {cid} never got an answer'))
    return out


def gen_sym_beh(rng, side, n, raising):
    beh = []
    for k in range(n):
        if rng.random() < raising:
            beh.append({'raise': 1})
        else:
            sets = {}
            r = rng.random()
            if r < 0.12:
                sets = {rng.choice(ATTR_KEYS): gen_value(rng, 1)}
            elif r < 0.17:
                sets = {'errors': rng.choice([True, 'E', 1])}
            beh.append({'ret': rng.choice([['on', side, k, gen_value(rng, 1)], ['on', side, k], ['on', side, k], None, 0, f'{side}{k}~~~']), 'sets': sets})
    return beh


def gen_sym_case(rng, fwkind='none', raising=0.0, closed=True, tag='symmetric-random', na=None, nb=None):
    na = rng.randint(1, 4) if na is None else na
    nb = rng.randint(1, 4) if nb is None else nb
    ek = 'none' if fwkind == 'none' else 'both'
    callsA = [gen_two_event(rng, ek) for _ in range(na)]
    callsB = [gen_two_event(rng, ek) for _ in range(nb)]
    fw = {}
    if fwkind != 'none':
        sides = {'send': ['sa', 'sb'], 'recv': ['ra', 'rb'], 'both': ['sa', 'sb', 'ra', 'rb']}[fwkind]
        for side in sides:
            if rng.random() < 0.75:
                fw[side] = gen_two_fw(rng, 'recv')['rb']
    n = {'a': na, 'b': nb}
    sent = {'a': 0, 'b': 0}
    steps = []
    for _ in range(rng.randint(4, 8 + 6 * (na + nb))):
        x = rng.choice('ab')
        r = rng.random()
        if r < 0.25 and sent[x] < n[x]:
            steps.append([x, 'send'])
            sent[x] += 1
        elif r < 0.6:
            steps.append([x, 'del', rng.choice(TWO_MODES)])
        elif r < 0.8:
            steps.append([x, 'ans', rng.randrange(max(1, sent[SYM_PEER[x]]))])
        else:
            steps.append([x, 'poll', rng.randrange(max(1, sent[x]))])
    if closed:
        rest = [[x, 'send'] for x in 'ab' for _ in range(n[x] - sent[x])]
        rng.shuffle(rest)
        steps += rest
        for _ in range(rng.randint(1, 3)):
            steps += [[rng.choice('ab'), 'del', rng.choice(['half', 'in-delim-1', 'past-delim', 'two-packets-minus'])]]
        steps += [['a', 'del', 10 ** 9], ['b', 'del', 10 ** 9]]
        order = [(x, k) for x in 'ab' for k in range(n[SYM_PEER[x]])]
        rng.shuffle(order)
        for x, k in order:
            steps.append([x, 'ans', k])
            if rng.random() < 0.4:
                steps.append([rng.choice('ab'), 'del', rng.choice(TWO_MODES)])
        steps += [['a', 'del', 10 ** 9], ['b', 'del', 10 ** 9], ['a', 'del', 10 ** 9]]
        polls = [(x, k) for x in 'ab' for k in range(n[x])]
        rng.shuffle(polls)
        steps += [[x, 'poll', k] for x, k in polls]
    return {'kind': 'two', 'sym': True, 'tag': tag, 'callsA': callsA, 'callsB': callsB, 'behA': gen_sym_beh(rng, 'a', nb, raising),
            'behB': gen_sym_beh(rng, 'b', na, raising), 'fw': fw, 'steps': steps, 'closed': closed, 'seed': rng.randint(0, 2 ** 30)}


def sym_directed_cases():
    """both ends call with the same ids at the same moment; every answer order; call and answer packets share each stream
    and are cut inside packets / delimiters; a send firewall that blocks the middle call of each end"""
    plain = lambda who, i: {'name': 'foo', 'args': [who, i], 'kwargs': {}, 'success': False, 'failure': False, 'notify': False,  # noqa: E731
                            'channels': [], 'attrs': {}}
    cases = []
    for k in (1, 2):
        for order in itertools.permutations([(x, i) for x in 'ab' for i in range(k)]):
            for cut in ('all', 'in-delim-1', 'one'):
                steps = [[x, 'send'] for _ in range(k) for x in 'ab']
                steps += [['a', 'del', cut], ['b', 'del', cut]] * (3 if cut != 'one' else 1) + [['a', 'del', 10 ** 9], ['b', 'del', 10 ** 9]]
                steps += [[x, 'ans', i] for x, i in order]
                steps += [['a', 'del', cut], ['b', 'del', cut]] * (60 if cut == 'one' else 3) + [['a', 'del', 10 ** 9], ['b', 'del', 10 ** 9]]
                steps += [[x, 'poll', i] for i in range(k) for x in 'ab']
                cases.append({'kind': 'two', 'sym': True, 'tag': 'symmetric-same-ids', 'closed': True, 'seed': 12, 'steps': steps,
                              'callsA': [plain('a', i) for i in range(k)], 'callsB': [plain('b', i) for i in range(k)],
                              'behA': [{'ret': ['on-a', i], 'sets': {}} for i in range(k)],
                              'behB': [{'ret': ['on-b', i], 'sets': {}} for i in range(k)], 'fw': {}})
            if k == 2 and len(cases) > 40:
                break
    # answer of A to B's call 0 written between A's calls 0 and 1: the stream A->B is call, answer, call
    steps = [['b', 'send'], ['a', 'send'], ['a', 'del', 10 ** 9], ['a', 'ans', 0], ['a', 'send'], ['b', 'del', 'two-packets-minus'],
             ['b', 'del', 'in-delim-2'], ['b', 'del', 10 ** 9], ['b', 'ans', 1], ['b', 'ans', 0], ['a', 'del', 'half'], ['a', 'del', 10 ** 9],
             ['a', 'poll', 0], ['a', 'poll', 1], ['b', 'poll', 0]]
    cases.append({'kind': 'two', 'sym': True, 'tag': 'symmetric-mixed-stream', 'closed': True, 'seed': 13, 'steps': steps,
                  'callsA': [plain('a', 0), plain('a', 1)], 'callsB': [plain('b', 0)],
                  'behA': [{'ret': ['on-a', 0], 'sets': {}}], 'behB': [{'ret': ['on-b', i], 'sets': {}} for i in range(2)], 'fw': {}})
    # the send firewalls block the middle call of each end: ids stay consecutive, nothing is written, the caller is resumed
    fw = {'sa': [[], [], [dict(FW_RULES['args'], sel=['a', 1])]], 'sb': [[], [], [dict(FW_RULES['args'], sel=['a', 1])]]}
    callsA = [plain('a', 1), plain('a', 5000), plain('a', 2)]
    callsB = [plain('b', 5000), plain('b', 1)]
    steps = [['a', 'send'], ['b', 'send'], ['a', 'send'], ['b', 'send'], ['a', 'send'], ['b', 'del', 'half'], ['b', 'del', 10 ** 9],
             ['a', 'del', 10 ** 9], ['a', 'ans', 0], ['b', 'ans', 1], ['b', 'ans', 0], ['a', 'del', 10 ** 9], ['b', 'del', 10 ** 9],
             ['a', 'poll', 0], ['a', 'poll', 1], ['a', 'poll', 2], ['b', 'poll', 0], ['b', 'poll', 1]]
    cases.append({'kind': 'two', 'sym': True, 'tag': 'symmetric-send-firewall', 'closed': True, 'seed': 14, 'steps': steps,
                  'callsA': callsA, 'callsB': callsB, 'behA': [{'ret': ['on-a', 0], 'sets': {}}],
                  'behB': [{'ret': ['on-b', i], 'sets': {}} for i in range(2)], 'fw': fw})
    return cases


def sym_cases(ctx):
    rng = ctx.rng
    s = ctx.scale
    cases = []
    for c in sym_directed_cases():
        cases.append(c)
        cases.append(dict(c, backend='node'))
    rnd = []
    for _ in range(70 * s):
        rnd.append(gen_sym_case(rng))
    for i in range(70 * s):
        rnd.append(gen_sym_case(rng, fwkind=['send', 'both', 'recv', 'send'][i % 4], tag='symmetric-firewall'))
    for _ in range(20 * s):
        rnd.append(gen_sym_case(rng, raising=0.4, tag='symmetric-raising'))
    for _ in range(20 * s):
        rnd.append(gen_sym_case(rng, closed=False, fwkind=rng.choice(['none', 'both']), raising=0.1, tag='symmetric-open'))
    for i, c in enumerate(rnd):
        cases.append(dict(c, backend='node') if i % 2 else c)
    return cases


# ---------------------------------------------------------------------------------------
# a node that is the client of several servers, each of which calls it (case kind `two` with 'peers': True; real
# `Node` + `Node.add` peers; every server end is a real server-mode Protocol with calls of its own in flight).  No model
# run: the spec "the answer travels on the calling connection only / a waiting caller is resumed with the result of its
# own call only" (`answer_on_calling_connection_only`, `n2_resultHandler`: sock = mine) is judged on the implementation.
# case = {'npeers': k, 'calls': [n_0, …] (calls server j makes: foo(j, i), ids 0..n_j-1), 'deliver': [[j, i] …] (order in
#         which call packets reach the node; the rest stays undelivered)}
# ---------------------------------------------------------------------------------------

def eval_one_peers(ctx, case, excl):
    with ctx.guard(case, what='node with several client peers'):
        out = run_peers_impl(case)
    for sig, what in out['violations']:
        ctx.violate(case, sig, what)
    ctx.count('peers_connections', case['npeers'])
    ctx.count('peers_delivered_of_sent', f"{len(case['deliver'])}/{sum(case['calls'])}")
    ctx.count('peers_result_packets_on_other_connections', out['stray'])
    ctx.count('two_kind', case.get('tag', 'symmetric-client-peers'))
    ctx.case(case, nontrivial=len(case['deliver']) > 0, validated=True)
    return
    yield   # (a generator like eval_one_two: it never talks to the driver)


def run_peers_impl(case):
    import os
    from circuits import Component, Event, Manager, handler
    from circuits.core.pollers import BasePoller
    from circuits.net.events import read
    from circuits.node import Node
    from circuits.node.protocol import Protocol

    class PeerApp(Component):
        channel = 'app'

        def init(self):
            self.writes = []
            self.seen = []

        @handler('write', channel='*', priority=50)
        def _on_write(self, event, *a):
            self.writes.append((tuple(event.channels), a))
            event.stop()

        @handler('connect', channel='*', priority=50)
        def _on_connect(self, event, *a):
            event.stop()

        @handler(channel='*', priority=1000)
        def _on_any(self, event, *args, **kwargs):
            if 'node_call_id' in event.__dict__ and not any(event is x for x in self.seen):
                self.seen.append(event)
                return ['R'] + list(args)
            return None

    def drain(m):
        for _ in range(100):
            if not len(m):
                return
            m.flush()
    k = case['npeers']
    m = Manager()
    app = PeerApp().register(m)
    node = Node().register(m)
    chans = [node.add(f's{j}', '127.0.0.1', 1, reconnect_delay=0) for j in range(k)]
    drain(m)
    app.writes.clear()
    servers, gens, packets = [], {}, {}
    managers = [m]
    for j in range(k):
        mj = Manager()
        managers.append(mj)
        aj = PeerApp().register(mj)
        pj = Protocol(sock=f'S{j}', server=True, channel='node').register(mj)
        drain(mj)
        for i in range(case['calls'][j]):
            e = type(Event)('foo', (Event,), {})(j, i)
            e.channels = ('app',)
            g = pj.send(e)
            next(g)
            drain(mj)
            gens[(j, i)] = g
            packets[(j, i)] = b''.join(a[-1] for _ch, a in aj.writes)
            aj.writes.clear()
        servers.append(pj)
    violations, stray = [], 0
    for j, i in case['deliver']:
        m.fire(read(packets[(j, i)]), chans[j])
        drain(m)
        for ch, a in app.writes:
            q = chans.index(ch[0]) if ch and ch[0] in chans else None
            if q != j:
                stray += 1
                violations.append(('symmetric-answer-on-other-connection(client-side)',
                                   f'the call {i} of server {j} was answered on connection {q}: {a[-1][:80]!r}'))
            if q is not None:
                servers[q].add_buffer(a[-1])
        app.writes.clear()
    delivered = {tuple(x) for x in case['deliver']}
    for (j, i), g in gens.items():
        try:
            v = next(g)
        except StopIteration:
            v = 'stopped'
        if (j, i) not in delivered:
            if v is not None:
                violations.append(('symmetric-forged-result(undelivered-call)',
                                   f'server {j}: its call {i} never reached the node, its caller was resumed with {getattr(v, "value", v)!r}'))
        elif v is None:
            violations.append(('symmetric-no-answer', f'server {j}: call {i} was delivered and handled, no result came back'))
        elif getattr(v, 'value', v) != ['R', j, i]:
            violations.append(('symmetric-wrong-result(value)', f'server {j}: call {i} got {getattr(v, "value", v)!r}'))
    for mm in managers:
        for c in list(mm.components) + [x for c in mm.components for x in _walk(c)]:
            sk = getattr(c, '_sock', None)
            if sk is not None and hasattr(sk, 'close'):
                try:
                    sk.close()
                except Exception:   # noqa: BLE001
                    pass
            if isinstance(c, BasePoller):
                for fd in (c._ctrl_recv, c._ctrl_send):
                    try:
                        os.close(fd) if isinstance(fd, int) else fd.close()
                    except Exception:   # noqa: BLE001
                        pass
    seen = set()
    return {'violations': [v for v in violations if not (v[0] in seen or seen.add(v[0]))], 'stray': stray}


def peers_cases(ctx):
    rng = ctx.rng
    cases = [{'kind': 'two', 'peers': True, 'tag': 'symmetric-client-peers', 'npeers': 2, 'calls': [1, 1], 'deliver': [[0, 0]]},
             {'kind': 'two', 'peers': True, 'tag': 'symmetric-client-peers', 'npeers': 3, 'calls': [2, 2, 1], 'deliver': [[1, 0], [0, 0], [1, 1]]}]
    for _ in range(12 * ctx.scale):
        k = rng.choice([2, 2, 3])
        calls = [rng.randint(1, 3) for _ in range(k)]
        every = [[j, i] for j in range(k) for i in range(calls[j])]
        # per connection in order (a byte stream), connections interleaved, a random part stays undelivered
        order = sorted(every, key=lambda ji: (ji[1] + rng.random(), ji[0]))
        order = [x for x in order if all([x[0], i] in order[:order.index(x)] for i in range(x[1]))]
        cut = rng.randint(0, len(order))
        cases.append({'kind': 'two', 'peers': True, 'tag': 'symmetric-client-peers', 'npeers': k, 'calls': calls, 'deliver': order[:cut]})
    return cases


def two_cases(ctx):
    cases = two_cases_plain(ctx)
    n_directed = len(two_directed_cases())
    out = []
    for i, c in enumerate(cases):
        if i < n_directed:
            out.append(c)
            out.append(dict(c, backend='node'))
        else:
            out.append(dict(c, backend='node') if i % 3 != 0 else c)
    return out + sym_cases(ctx) + peers_cases(ctx)


def two_cases_plain(ctx):
    rng = ctx.rng
    s = ctx.scale
    cases = two_directed_cases()
    for _ in range(150 * s):
        cases.append(gen_two_case(rng, 1, tag='two-random'))
    for _ in range(60 * s):
        cases.append(gen_two_case(rng, 2, tag='two-connections'))
    for i in range(120 * s):
        cases.append(gen_two_case(rng, 1 + (i % 3 == 2), fwkind=['recv', 'recv', 'send', 'both'][i % 4], tag='two-firewall'))
    for _ in range(40 * s):
        cases.append(gen_two_case(rng, 1, raising=0.4, tag='two-raising'))
    for _ in range(40 * s):
        cases.append(gen_two_case(rng, rng.choice([1, 2]), closed=False, fwkind=rng.choice(['none', 'recv']), raising=0.1, tag='two-open'))
    return cases


EVAL = {'session': eval_session, 'codec': eval_codec, 'roundtrip': eval_roundtrip, 'split': eval_split, 'two': eval_two}


def params(ctx):
    from circuits.node.utils import META_EXCLUDE
    from circuits.node import protocol
    excl = sorted(META_EXCLUDE)
    crit = sorted(set(CRITICAL_BASE) | set(critical_names()))
    ans = ctx.driver.batch('node', [['excl ' + ' '.join(sx(n) for n in excl), 'critical ' + ' '.join(sx(n) for n in crit)]])[0]
    detail = 'every dispatcher-read attribute is in META_EXCLUDE' if ans[1] == 'ok' else \
        'not excluded: ' + ' '.join(unhx(t).decode() for t in ans[1].split()[1:])
    ctx.param('Critical ⊆ META_EXCLUDE (C19.meta_safe hypothesis)', ans[1] == 'ok', detail)
    ctx.param('DELIMITER == b"~~~" (CV.Node.DELIM)', protocol.DELIMITER == DELIM, repr(protocol.DELIMITER))
    ctx.extra['critical_attributes'] = crit
    return crit


def run(ctx):
    ctx.rule = ('sessions: 4 real Protocol instances (2 server-mode on one manager, 2 clients), random events '
                '(args with ~, ~~~, "value":, >4 KiB), firewalls (by name / channel; directed + random: by argument, keyword '
                'argument, attribute, every n-th event - allowed and rejected events of one (name, channels) on one '
                'connection in both orders and alternating, awaited or in flight), deliveries cut none/one/few/around every delimiter/'
                'inside delimiters/after bodies/every 64/every 4096 bytes; hostile: JSON mutation grammar x metadata '
                'keys of a dispatched event; codec: every field of a call packet x type swaps (exhaustive list) + random; '
                'split: all strings <=7 over {~,a} (exhaustive); non-trivial = more than one read / any codec case; '
                'distinct = distinct case; two-party: scenarios (1-2 connections, 1-5 calls each with independently drawn '
                'success/failure/notify/complete flags and channels incl. "*", "node_result", the node channel; handlers that '
                'return in any order / raise; firewalls on both ends; both byte streams cut per scenario: whole, half, 1 byte, '
                'before / inside / after a delimiter, across two packets) executed by `cvdriver node2` = CV.Node.n2_stepK and on real '
                'endpoints - bare Protocol objects, and Node + Server + Client components (sends through Client.send and '
                'through `remote` events) - observation streams compared step by step + residue; symmetric: both ends of one '
                'connection originate 1-4 calls each (ids allocated independently, same ids in flight in both directions), '
                'send and receive firewalls on both ends, each direction one byte stream carrying calls and answers, cut per '
                'scenario, executed by `cvdriver node2` = CV.Node.ns_step and on both real backends; client-peers: a real Node with '
                '2-3 Node.add peers whose servers have calls of their own in flight (judged on the implementation only)')
    ctx.trusted += ['json.loads / json.dumps / UTF-8 decoding are an oracle of the model (table filled from the real functions)',
                    'JSON text never ends in "~" and a proper prefix of a dumped object is not JSON (hypotheses of '
                    'C19.packets_exact; exercised by the cut generators)',
                    'the handlers of the receiving side are abstract (value returned or exception); Manager dispatch order is '
                    "the core's (C01-C08)"]
    ctx.trusted += ['two-party runs: the harness is the network (write events captured and stopped, bytes re-cut and injected as '
                    'add_buffer calls / `read` events, managers flushed by hand, generator handlers parked until the scenario '
                    'releases them); json.dumps is a second oracle of the model (table filled from the real function)']
    ctx.assumptions += ['strings with lone surrogates are not generated (the driver carries UTF-8)',
                        'a stateful firewall (every n-th event shown to it is rejected) is judged as the function of the '
                        'event it amounts to on a FIFO connection: the k-th call handed to send() / the k-th call packet '
                        'that arrives; being asked twice about one event object counts once',
                        'an exception out of Manager.flush() is what ends Manager.run()']
    params(ctx)
    meta_keys = meta_key_pool()
    ctx.extra['hostile_meta_keys'] = len(meta_keys)
    for c in ctx.corpus():
        EVAL[c['kind']](ctx, [c])
    groups = [('split', split_cases(ctx)), ('roundtrip', roundtrip_cases(ctx)), ('codec', codec_cases(ctx, meta_keys)),
              ('session', session_cases(ctx, meta_keys)), ('two', two_cases(ctx))]
    for kind, cases in groups:
        if kind == 'session':
            cases = [materialise(c) for c in cases]
        for i in range(0, len(cases), 200):
            EVAL[kind](ctx, cases[i:i + 200])
            if ctx.time_up():
                break


def search(ctx):
    run(ctx)


def replay(ctx, case):
    if case['kind'] == 'session':
        case = materialise(case)
    EVAL[case['kind']](ctx, [case])

"""C01, class layer: handler tables derived from class hierarchies.

Random class hierarchies are turned into real classes (`class` statements via exec, or `type(...)`), created and
instantiated in varying orders; after every instantiation the instance's live `_handlers` / `_globals` are read and
compared with `CV.ClassTable.effectiveHandlers` (driver `classtable`); then instances are put into a tree, events are
fired through the real Manager and the delivered set is compared with `collect` on the class-derived Lean state.

Verdicts: a difference model/implementation is `ctx.disagree`.  `ctx.violate` only when the implementation's own
behaviour contradicts C01's statement as the documentation of `handler` / `Component` reads it (oracle below, written
from the documentation, not from `__new__`/`__init__`); configurations where the documentation is silent (a handler
shadowed two levels up, copy-name clashes, ...) are judged against the live tables only.
"""
import framework

PUBLIC = ['foo', 'bar', 'baz', 'qux', 'go']
PRIVATE = ['_p', '_q']
EVENTS = ['foo', 'bar', 'baz', 'qux', 'go', 'ev1', 'ev2']
CHANS = ['a', 'b']
PRIOS = [-1, 0, 0, 1, 2]
BUILTIN = ('BaseComponent', 'Component')


# ------------------------------------------------------------------------------------------
# generation
# ------------------------------------------------------------------------------------------

def gen_member(rng, name, earlier):
    r = rng.random()
    if r < 0.45:
        k = rng.random()
        names = [] if k < 0.2 else rng.sample(EVENTS, 1 if k < 0.75 else 2)
        c = rng.random()
        chan = None if c < 0.6 else ('*' if c < 0.75 else rng.choice(CHANS))
        return {'name': name, 'kind': 'h', 'names': names, 'prio': rng.choice(PRIOS), 'chan': chan,
                'override': rng.random() < 0.3}
    if r < 0.78:
        return {'name': name, 'kind': 'p'}
    if r < 0.9:
        return {'name': name, 'kind': 'n'}
    return {'name': name, 'kind': 'd'}


def gen_case(rng, shape=None):
    shape = shape or rng.choice(['chain', 'chain', 'mixed', 'mixed', 'multi', 'siblings'])
    n = rng.randint(1, 6) if shape != 'chain' else rng.randint(2, 5)
    classes = []
    for i in range(n):
        name = f'K{i}'
        earlier = [c['name'] for c in classes]
        if shape == 'chain':
            bases = [earlier[-1]] if earlier and rng.random() < 0.85 else [rng.choice(BUILTIN)]
            if earlier and bases[0] in earlier and rng.random() < 0.25:
                bases.append('Component')          # switch the metaclass on half-way down
        elif shape == 'siblings':
            bases = [earlier[0]] if earlier else [rng.choice(BUILTIN)]
        else:
            k = 1 if (shape == 'mixed' and rng.random() < 0.6) else rng.choice([1, 2, 2, 3])
            pool = earlier + list(BUILTIN)
            weights = [3] * len(earlier) + [1, 1]
            bases = []
            for _ in range(k):
                b = rng.choices(pool, weights)[0]
                if b not in bases or rng.random() < 0.03:
                    bases.append(b)
        names = []
        for _ in range(rng.choice([0, 1, 2, 2, 3, 3, 4, 5])):
            r = rng.random()
            if r < 0.74:
                nm = rng.choice(PUBLIC)
            elif r < 0.88:
                nm = rng.choice(PRIVATE)
            elif earlier:
                nm = f'{rng.choice(earlier)}_{rng.choice(PUBLIC)}'      # clashes with a `<Base>_<name>` copy
            else:
                nm = rng.choice(PUBLIC)
            if nm not in names:
                names.append(nm)
        c = rng.random()
        classes.append({'name': name, 'bases': bases, 'chan': None if c < 0.65 else rng.choice(CHANS + ['*']),
                        'members': [gen_member(rng, nm, earlier) for nm in names],
                        'style': rng.choice(['stmt', 'type'])})
    # creation order: a random linear extension; instantiations interleaved
    ops = []
    created = []
    todo = list(classes)
    while todo:
        ready = [c for c in todo if all(b in BUILTIN or b in created for b in c['bases'])]
        c = rng.choice(ready)
        todo.remove(c)
        created.append(c['name'])
        ops.append(['class', c['name']])
        while rng.random() < 0.4:
            ops.append(['inst', rng.choice(created)])
    for _ in range(rng.randint(1, 5)):
        x = rng.choice(created)
        ops.append(['inst', x])
        if rng.random() < 0.3:
            ops.append(['inst', x])
    k = rng.randint(1, 4)
    tree = [[rng.choice(created), None]]
    for i in range(1, k):
        tree.append([rng.choice(created), rng.randrange(i)])
    fires = []
    for _ in range(rng.randint(3, 8)):
        t = rng.random()
        target = '*' if t < 0.35 else ('=' + rng.choice(CHANS + ['c']) if t < 0.8 else '@' + str(rng.randrange(k)))
        fires.append([rng.choice(EVENTS), target])
    return {'kind': 'classes', 'shape': shape, 'classes': classes, 'ops': ops, 'tree': tree, 'fires': fires}


# ------------------------------------------------------------------------------------------
# the real side
# ------------------------------------------------------------------------------------------

class World:
    def __init__(self, case):
        from circuits.core.components import BaseComponent, Component
        from circuits.core.handlers import handler
        self.case = case
        self.decl = {c['name']: c for c in case['classes']}
        self.log = []
        self.env = {'BaseComponent': BaseComponent, 'Component': Component, 'handler': handler, '_log': self._log}
        self.live = {}

    def _log(self, inst, cls, meth):
        self.log.append((getattr(inst, '_ct_idx', None), cls, meth))

    def create(self, name):
        """execute the class statement; returns the MRO names or None when Python refuses"""
        d = self.decl[name]
        if any(b not in self.env for b in d['bases']) or name in self.live:
            return None
        try:
            if d['style'] == 'stmt':
                cls = self._by_statement(d)
            else:
                cls = self._by_type(d)
        except TypeError:
            return None
        for k, v in list(cls.__dict__.items()):
            if callable(v) and hasattr(v, '__code__'):
                v._ct = (name, k)
        self.env[name] = cls
        self.live[name] = cls
        return [k.__name__ for k in cls.__mro__ if k.__name__ not in ('Manager', 'object')]

    def _by_statement(self, d):
        src = [f"class {d['name']}({', '.join(d['bases'])}):"]
        if d['chan'] is not None:
            src.append(f"    channel = {d['chan']!r}")
        for m in d['members']:
            body = f"    def {m['name']}(self, *args, **kwargs): _log(self, {d['name']!r}, {m['name']!r})"
            if m['kind'] == 'h':
                args = [repr(n) for n in m['names']]
                if m['prio'] != 0 or len(m['names']) % 2:
                    args.append(f"priority={m['prio']}")
                if m['chan'] is not None:
                    args.append(f"channel={m['chan']!r}")
                if m['override']:
                    args.append('override=True')
                src += [f"    @handler({', '.join(args)})", body]
            elif m['kind'] == 'p':
                src.append(body)
            elif m['kind'] == 'n':
                src += ['    @handler(False)', body]
            else:
                src.append(f"    {m['name']} = 5")
        if len(src) == 1:
            src.append('    pass')
        scope = dict(self.env)
        exec('\n'.join(src), scope)
        return scope[d['name']]

    def _by_type(self, d):
        handler = self.env['handler']
        ns = {}
        if d['chan'] is not None:
            ns['channel'] = d['chan']
        for m in d['members']:
            if m['kind'] == 'd':
                ns[m['name']] = 5
                continue
            f = self._mkfunc(d['name'], m['name'])
            if m['kind'] == 'h':
                kw = {}
                if m['prio'] != 0:
                    kw['priority'] = m['prio']
                if m['chan'] is not None:
                    kw['channel'] = m['chan']
                if m['override']:
                    kw['override'] = True
                f = handler(*m['names'], **kw)(f)
            elif m['kind'] == 'n':
                f = handler(False)(f)
            ns[m['name']] = f
        return type(d['name'], tuple(self.env[b] for b in d['bases']), ns)

    def _mkfunc(self, cls, meth):
        log = self._log

        def f(self, *args, **kwargs):
            log(self, cls, meth)
        f.__name__ = meth
        f.__qualname__ = f'{cls}.{meth}'
        return f

    def instantiate(self, name):
        return self.live[name]()


def table_of(inst):
    """canonical reading of the live tables: {(cls, meth): 'cls.meth:names:prio:chan:bucket'}"""
    found = {}
    for key, hs in inst._handlers.items():
        for m in hs:
            ct = getattr(m, '_ct', None)
            if ct is not None:
                found.setdefault(ct, (m, set(), [False]))[1].add(key)
    for m in inst._globals:
        ct = getattr(m, '_ct', None)
        if ct is not None:
            found.setdefault(ct, (m, set(), [False]))[2][0] = True
    out = {}
    for ct, (m, keys, g) in found.items():
        names = list(m.names)
        if g[0] and not keys:
            bucket = 'G'
        elif not g[0] and keys == {'*'} and not names:
            bucket = 'A'
        elif not g[0] and names and keys == set(names):
            bucket = 'N'
        else:
            bucket = '?' + ','.join(sorted(map(str, keys))) + ('+G' if g[0] else '')
        ch = m.channel
        out[ct] = f"{ct[0]}.{ct[1]}:{'+'.join(names) if names else '-'}:{m.priority}:{'-' if ch is None else ch}:{bucket}"
    return out


def live_matches(inst, ev, target_obj):
    """the statement's rule evaluated on the live tables of one instance (never the cache)"""
    res = set()
    hs = set(inst._handlers.get('*', ())) | set(inst._handlers.get(ev, ()))
    for m in hs:
        ct = getattr(m, '_ct', None)
        if ct is None:
            continue
        hc = m.channel if m.channel is not None else inst.channel
        if target_obj == '*' or hc == '*' or hc == target_obj or target_obj is inst:
            res.add(ct)
    for m in inst._globals:
        ct = getattr(m, '_ct', None)
        if ct is not None:
            res.add(ct)
    return res


# ------------------------------------------------------------------------------------------
# the oracle: what the documentation promises about an instance of class C
# ------------------------------------------------------------------------------------------

def judge(world, cname):
    """-> (must: {fn: (kind, member)}, mustnot: {fn: kind}); everything else is not judged by the statement"""
    cls = world.live[cname]
    mro = [k.__name__ for k in cls.__mro__ if k.__name__ in world.decl]
    direct = [k.__name__ for k in cls.__bases__ if k.__name__ in world.decl]

    def is_meta(n):
        return any(k.__name__ == 'Component' for k in world.live[n].__mro__)

    def hkind(n, m):
        if m['kind'] == 'h':
            return 'explicit'
        if m['kind'] == 'p' and is_meta(n) and not m['name'].startswith('_'):
            return 'implicit'
        return None

    members = {n: {m['name']: m for m in world.decl[n]['members']} for n in mro}
    attr_names = {k for n in mro for k in members[n]}
    copy_names = [f'{b}_{k}' for b in direct for k, m in members[b].items() if hkind(b, m)]
    clash = len(copy_names) != len(set(copy_names)) or bool(set(copy_names) & attr_names)
    must, mustnot = {}, {}
    copied = set(copy_names)
    for k in attr_names:
        definers = [n for n in mro if k in members[n]]
        first = definers[0]
        m0 = members[first][k]
        if hkind(first, m0):
            if not clash:
                must[(first, k)] = ('own' if first == cname else 'inherited') + '-' + hkind(first, m0), m0, first
            elif k in copied and any(f'{b}_{j}' == k and not (j in members[cname] and hkind(cname, members[cname][j])
                                                             and members[cname][j].get('override'))
                                     for b in direct for j, mj in members[b].items() if hkind(b, mj)):
                # a declared handler whose method name is also the `<Base>_<name>` of a copied base handler:
                # the statement still demands it (known finding when the code drops it)
                must[(first, k)] = 'copy-name-clash', m0, first
        else:
            mustnot[(first, k)] = 'non-handler'
        for dn in definers[1:]:
            md = members[dn][k]
            if not hkind(dn, md):
                mustnot[(dn, k)] = 'non-handler'
            elif first == cname and dn in direct and hkind(first, m0) and not clash:
                if m0['kind'] == 'h' and m0['override']:
                    mustnot[(dn, k)] = 'overridden'
                else:
                    must[(dn, k)] = 'base-additional', md, dn
    return must, mustnot


def inst_channel(world, cname):
    for k in world.live[cname].__mro__:
        d = world.decl.get(k.__name__)
        if d is not None and d['chan'] is not None:
            return d['chan'] or '*'
    return '*'


def decl_info(n, m):
    if m['kind'] == 'h':
        return m['names'], m['chan']
    return [m['name']], None


def decl_matches(names, chan, comp_chan, ev, target, is_self):
    if not names and chan == '*':
        return True
    if names and ev not in names:
        return False
    hc = chan if chan is not None else comp_chan
    return target == '*' or hc == '*' or hc == target or is_self


# ------------------------------------------------------------------------------------------
# one case
# ------------------------------------------------------------------------------------------

def member_tok(m):
    if m['kind'] != 'h':
        return f"{m['name']}:{m['kind']}"
    return (f"{m['name']}:h:{'+'.join(m['names']) if m['names'] else '-'}:{m['prio']}:"
            f"{'-' if m['chan'] is None else m['chan']}:{1 if m['override'] else 0}")


def class_line(d):
    return ' '.join([f"class {d['name']} {','.join(d['bases'])} {'-' if d['chan'] is None else d['chan']}"]
                    + [member_tok(m) for m in d['members']])


def run_impl(case):
    """-> (lean op lines, expected answers (None = not compared), findings, stats)"""
    w = World(case)
    lines, expect, viol, stats = [], [], [], []
    inst_seen = {}

    def check_tables(cname, inst, where):
        tab = table_of(inst)
        must, mustnot = judge(w, cname)
        for fn, (kind, _m, _n) in must.items():
            if fn not in tab:
                viol.append((f'missing-handler(class:{kind})',
                             f'{where}: an instance of {cname} has no handler {fn[0]}.{fn[1]} installed'))
        for fn, kind in mustnot.items():
            if fn in tab:
                viol.append((f'extra-handler(class:{kind})',
                             f'{where}: an instance of {cname} has {fn[0]}.{fn[1]} installed as a handler'))
        return tab

    for op in case['ops']:
        if op[0] == 'class':
            d = w.decl[op[1]]
            mro = w.create(op[1])
            lines.append(class_line(d))
            expect.append(('class', op[1], 'refused' if mro is None else 'ok ' + ','.join(mro)))
            stats.append(('class-statement', 'refused' if mro is None else f"{d['style']}:{len(d['bases'])}-bases"))
        else:
            cname = op[1]
            if cname not in w.live:
                continue
            bases = [b for b in w.decl[cname]['bases'] if b in w.decl]
            for b in bases:
                if cname not in inst_seen:
                    stats.append(('instantiation-order', 'base-first' if b in inst_seen else 'subclass-first'))
            if cname in inst_seen:
                stats.append(('instantiation-order', 'same-class-again'))
            sib = [c for c in inst_seen if c != cname and set(w.decl[c]['bases']) & set(bases)]
            if sib and cname not in inst_seen:
                stats.append(('instantiation-order', 'after-sibling'))
            inst_seen[cname] = inst_seen.get(cname, 0) + 1
            inst = w.instantiate(cname)
            tab = check_tables(cname, inst, f'instantiation #{inst_seen[cname]}')
            lines.append(f'eff {cname}')
            expect.append(('eff', cname, sorted(tab.values())))
            lines.append(f'chan {cname}')
            expect.append(('chan', cname, 'ok ' + str(inst.channel)))
            if inst.channel != inst_channel(w, cname):
                viol.append(('wrong-channel(class)', f'{cname}() listens on {inst.channel!r}, declared {inst_channel(w, cname)!r}'))
            stats.append(('table-size', len(tab)))
    for c in w.decl:
        if c in w.live:
            for b in w.decl[c]['bases']:
                if b in w.decl and c in inst_seen and b not in inst_seen:
                    stats.append(('instantiation-order', 'base-never'))
    # tree + fires
    tree = [t for t in case['tree']]
    if tree and all(t[0] in w.live for t in tree):
        insts = []
        for i, (cname, parent) in enumerate(tree):
            x = w.instantiate(cname)
            x._ct_idx = i
            insts.append(x)
            check_tables(cname, x, f'tree instance {i}')
        for i, (cname, parent) in enumerate(tree):
            if parent is not None:
                insts[i].register(insts[parent])
        root = insts[0]
        for _ in range(20):
            if not len(root):
                break
            root.flush()
        lines.append('tree ' + ' '.join(c if p is None else f'{c}@{p}' for c, p in tree))
        expect.append(('tree', '', 'ok'))
        judged = [judge(w, c) for c, _p in tree]
        chans = [inst_channel(w, c) for c, _p in tree]
        from circuits.core.events import Event
        for ev, target in case['fires']:
            if target.startswith('@') and int(target[1:]) >= len(insts):
                continue
            tobj = '*' if target == '*' else (target[1:] if target[0] == '=' else insts[int(target[1:])])
            live = {(i, fn) for i, x in enumerate(insts) for fn in live_matches(x, ev, tobj)}
            del w.log[:]
            root.fire(Event.create(ev), tobj)
            for _ in range(20):
                if not len(root):
                    break
                root.flush()
            got = [(i, (c, m)) for (i, c, m) in w.log]
            gset = set(got)
            if len(got) != len(gset):
                dup = sorted({g for g in got if got.count(g) > 1})
                viol.append(('duplicate-delivery(class)', f'event {ev} to {target}: invoked more than once: {dup}'))
            for i, (must, mustnot) in enumerate(judged):
                tstr = '*' if target == '*' else (target[1:] if target[0] == '=' else None)
                for fn, (kind, m, n) in must.items():
                    names, ch = decl_info(n, m)
                    want = decl_matches(names, ch, chans[i], ev, tstr, tobj is insts[i])
                    if want and (i, fn) not in gset:
                        viol.append((f'missing-handler(class:{kind})',
                                     f'event {ev} to {target}: {fn[0]}.{fn[1]} of instance {i} ({tree[i][0]}) matches '
                                     f'but was not invoked'))
                    if not want and (i, fn) in gset:
                        viol.append((f'extra-handler(class:{kind})',
                                     f'event {ev} to {target}: {fn[0]}.{fn[1]} of instance {i} ({tree[i][0]}) does not '
                                     f'match but was invoked'))
                for fn, kind in mustnot.items():
                    if (i, fn) in gset:
                        viol.append((f'extra-handler(class:{kind})',
                                     f'event {ev} to {target}: {fn[0]}.{fn[1]} of instance {i} was invoked'))
                unj = lambda fn: fn not in must and fn not in mustnot   # noqa
                for (j, fn) in gset - live:
                    if j == i and unj(fn):
                        viol.append(('extra-handler(class:live-table)', f'event {ev} to {target}: {fn} of instance {i} '
                                     f'invoked, not in the live tables for it'))
                for (j, fn) in live - gset:
                    if j == i and unj(fn):
                        viol.append(('missing-handler(class:live-table)', f'event {ev} to {target}: {fn} of instance {i} '
                                     f'is in the live tables for it, not invoked'))
            lines.append(f'fire {ev} {target}')
            expect.append(('fire', f'{ev} {target}', sorted(f'{i}:{c}.{m}' for (i, (c, m)) in gset)))
            stats.append(('delivered-set-size', len(gset)))
            stats.append(('target-kind', 'instance' if target[0] == '@' else ('star' if target == '*' else 'string')))
        stats.append(('tree-size', len(insts)))
    return lines, expect, viol, stats


def compare(ctx, case, expect, answers):
    ok = True
    for (kind, arg, want), got in zip(expect, answers):
        if kind in ('eff', 'fire'):
            if not got.startswith('ok'):
                g = got
            else:
                g = sorted(got.split()[1:])
            if g != want:
                ok = False
                ctx.disagree(case, {'where': f'class-layer:{kind}', 'op': f'{kind} {arg}', 'impl': want, 'model': g})
        elif got != want:
            ok = False
            ctx.disagree(case, {'where': f'class-layer:{kind}', 'op': f'{kind} {arg}', 'impl': want, 'model': got})
    return ok


def shape_stats(ctx, case):
    ctx.count('class-hierarchy-shape', case.get('shape', '?'))
    ctx.count('classes-per-case', len(case['classes']))
    depth = {}
    for c in case['classes']:
        depth[c['name']] = 1 + max([depth.get(b, 0) for b in c['bases']] or [0])
        ctx.count('direct-bases', len(c['bases']))
        ctx.count('metaclass', 'Component' if 'Component' in c['bases'] else 'inherited/none')
        for m in c['members']:
            k = m['kind']
            if k == 'p' and m['name'].startswith('_'):
                k = 'underscore'
            elif k == 'h':
                k = 'handler' + ('(override)' if m['override'] else '') + ('' if m['names'] else '(no-names)')
            ctx.count('member-kind', {'p': 'plain', 'n': 'handler(False)', 'd': 'data'}.get(k, k))
            if '_' in m['name'][1:]:
                ctx.count('member-kind', 'copy-name-clash-candidate')
    ctx.count('hierarchy-depth', max(depth.values()))
    seen = {}
    for c in case['classes']:
        for m in c['members']:
            seen.setdefault(m['name'], []).append(c['name'])
    ctx.count('names-defined-on-several-levels', sum(1 for v in seen.values() if len(v) > 1))


def run_cases(ctx, cases):
    todo = []
    for case in cases:
        try:
            lines, expect, viol, stats = run_impl(case)
        except framework.Infra:
            raise
        except Exception as e:          # the real code raised where the oracle expects a table
            ctx.violate(case, f'class-layer-exception({type(e).__name__})', f'{type(e).__name__}: {e}')
            ctx.case(case, nontrivial=False)
            continue
        todo.append((case, lines, expect, viol, stats))
    answers = ctx.driver.batch('classtable', [t[1] for t in todo]) if todo else []
    for (case, lines, expect, viol, stats), ans in zip(todo, answers):
        shape_stats(ctx, case)
        for h, k in stats:
            ctx.count(h, k)
        ok = compare(ctx, case, expect, ans)
        seen = set()
        for sig, what in viol:
            if sig not in seen:
                seen.add(sig)
                ctx.violate(case, sig, what)
        ctx.case(case, nontrivial=len(case['classes']) >= 2 and any(e[0] == 'fire' for e in expect), validated=ok)


def shrink(case, sig):
    """greedy: drop fires / tree instances / ops / members / classes while the signature stays"""
    def fails(c):
        try:
            return any(s == sig for s, _w in run_impl(c)[2])
        except Exception as e:
            return sig == f'class-layer-exception({type(e).__name__})'
    import copy
    cur = copy.deepcopy(case)
    changed = True
    while changed:
        changed = False
        for key in ('fires', 'ops'):
            i = 0
            while i < len(cur[key]):
                if key == 'ops' and cur[key][i][0] == 'class':
                    i += 1
                    continue
                t = copy.deepcopy(cur)
                del t[key][i]
                if fails(t):
                    cur, changed = t, True
                else:
                    i += 1
        while len(cur['tree']) > 1:
            t = copy.deepcopy(cur)
            last = len(t['tree']) - 1
            t['tree'].pop()
            t['fires'] = [f for f in t['fires'] if f[1] != f'@{last}']
            if fails(t):
                cur, changed = t, True
            else:
                break
        for ci in range(len(cur['classes'])):
            i = 0
            while i < len(cur['classes'][ci]['members']):
                t = copy.deepcopy(cur)
                del t['classes'][ci]['members'][i]
                if fails(t):
                    cur, changed = t, True
                else:
                    i += 1
        for ci in reversed(range(len(cur['classes']))):
            nm = cur['classes'][ci]['name']
            if any(nm in c['bases'] for c in cur['classes']) or any(t[0] == nm for t in cur['tree']):
                continue
            t = copy.deepcopy(cur)
            del t['classes'][ci]
            t['ops'] = [o for o in t['ops'] if o[1] != nm]
            if fails(t):
                cur, changed = t, True
    cur['shrunk'] = True
    what = next((w for s, w in run_impl(cur)[2] if s == sig), None)
    return cur, what


def check_params(ctx):
    """the generator's attribute names must not collide with the framework's own attributes"""
    from circuits.core.components import BaseComponent, Component
    # (throw-away subclasses: nothing is ever instantiated or cached on the library classes themselves)
    taken = set(dir(type('ProbeB', (BaseComponent,), {})())) | set(dir(type('ProbeC', (Component,), {})()))
    ours = set(PUBLIC + PRIVATE) | {f'K{i}_{p}' for i in range(6) for p in PUBLIC} | {f'K{i}_{p}' for i in range(6) for p in PRIVATE}
    bad = sorted(ours & taken)
    ctx.param('class-layer: generated member names are not attributes of BaseComponent/Component', not bad, ','.join(bad))
    own = [k for k, v in list(BaseComponent.__dict__.items()) + list(Component.__dict__.items())
           if getattr(v, 'handler', False)]
    ctx.param('class-layer: BaseComponent/Component define no class-level handlers (model: empty dicts)', not own, ','.join(own))


def run(ctx, n=None):
    check_params(ctx)
    cases = [c for c in ctx.corpus() if c.get('kind') == 'classes']
    n = n if n is not None else 500 * ctx.scale
    for _ in range(n):
        cases.append(gen_case(ctx.rng))
    for i in range(0, len(cases), 250):
        if ctx.time_up():
            break
        run_cases(ctx, cases[i:i + 250])
    seen = set()
    for v in ctx.violations:
        c = v['case']
        if c.get('kind') != 'classes' or c.get('shrunk') or v['signature'] in seen:
            continue
        seen.add(v['signature'])
        if len(seen) > 4:
            break
        try:
            small, what = shrink(c, v['signature'])
            v['case'] = small
            if what:
                v['what'] = what
        except Exception:
            pass


def replay(ctx, case):
    run_cases(ctx, [case])

"""C06 - see core_mod.SPEC['C06'] (generators, projections) and core_props.oracle_c06 (spec on the implementation).

Plus a directed, implementation-only case list `stale_tick_cases` (both tiers): a handler that runs the task loop
(`self.tick()`) from inside a dispatch while `yield self.call(bar(), timeout=T)` is pending makes the enclosing
`_dispatcher` go on with a handler list computed before the temporary `waitEvent` handlers were removed.  The stale
closures must be harmless: the caller is resumed exactly once (result XOR TimeoutError) and nothing raises.
(The Act language of the core model has no `tick` action; the model reaches the same situation through `stop()` outside
the executing thread, see CV/Proofs/InvWait2Wit.lean.)

And `stale_done_cases`: the awaited event OBJECT is fired and then called (`e = bar(); self.fire(e); yield self.call(e)`, as
`Timer` re-fires its event), so two `bar_done` events reach `_on_done`; a `bar_done` / `generate_events` handler re-enters
`tick()`.  A repeated or stale `_on_done` must not re-register the consumed callEvent generator: the caller is resumed
exactly once per wait, a later plain `yield` gets None, nothing raises, and the caller's event completes exactly once
with `waitingHandlers == 0`."""
import core_mod
import framework


def run(ctx):
    core_mod.run(ctx, 'C06')
    stale_tick_cases(ctx)
    stale_done_cases(ctx)


def search(ctx):
    core_mod.run(ctx, 'C06')
    stale_tick_cases(ctx)
    stale_done_cases(ctx)


def replay(ctx, case):
    if case.get('kind') == 'stale_tick':
        check_stale(ctx, case)
    elif case.get('kind') == 'stale_done':
        check_stale_done(ctx, case)
    else:
        core_mod.replay(ctx, 'C06', case)


def stale_tick_cases(ctx):
    """where: 'ge' = a generate_events handler (priority 10) runs the nested ticks at its `at`-th invocation after the call
    was made; 'done' = a bar_done handler (priority 10) runs them.  `timeout` in loop iterations, `nested` ticks,
    the callee yields `delay` times before it returns (so that for some rows the callee finishes in exactly the iteration
    in which the countdown reaches 0)."""
    for timeout in (0, 1, 2):
        for delay in (0, 1, 2):
            for nested in (1, 2, 3):
                for at in (0, 1, 2, 3):
                    check_stale(ctx, {'kind': 'stale_tick', 'where': 'ge', 'timeout': timeout, 'delay': delay,
                                      'nested': nested, 'at': at})
                check_stale(ctx, {'kind': 'stale_tick', 'where': 'done', 'timeout': timeout, 'delay': delay,
                                  'nested': nested, 'at': 0})


def check_stale(ctx, case):
    outcomes, errors, finished = run_stale(case)
    got = [o for o in outcomes if o != 'none']
    ctx.case(case, nontrivial=True, validated=True)
    ctx.count('stale_tick', case['where'] + ':' + '+'.join(outcomes or ['-']))
    if len(got) > 1:
        ctx.violate(case, 'both-outcomes(stale-tick)',
                    f'the caller of call(bar(), timeout={case["timeout"]}) was resumed {len(got)} times: {got}')
    elif errors:
        ctx.violate(case, 'spurious-exception(stale-closure)',
                    f'no user handler raises, yet exception events were fired: {errors[:2]} (outcomes {outcomes})')
    elif not got or not finished:
        ctx.violate(case, 'caller-lost(stale-closure)', f'outcomes {outcomes}, finished={finished}')


def run_stale(case):
    """one real run() loop; returns (outcomes seen by the caller, exception events, caller finished)"""
    import atexit
    import signal
    import threading
    framework.setup_import_path()
    from circuits import Component, Event, handler
    from circuits.core import helpers, manager

    class foo(Event):
        pass

    class bar(Event):
        pass

    outcomes, errors, state = [], [], {'armed': False, 'seen': 0, 'nesting': False, 'fin': False, 'n': 0}

    class App(Component):
        @handler('foo')
        def on_foo(self):
            state['armed'] = True
            try:
                x = yield self.call(bar(), timeout=case['timeout'])
                outcomes.append('result' if x.value == 'bar-result' else 'wrong-result')
            except manager.TimeoutError:
                outcomes.append('timeout')
            for _ in range(3):
                try:
                    yield None
                except manager.TimeoutError:
                    outcomes.append('late-timeout')
            state['fin'] = True

        @handler('bar')
        def on_bar(self):
            for _ in range(case['delay']):
                yield None
            yield 'bar-result'

        def nest(self):
            if not state['nesting']:
                state['nesting'] = True
                for _ in range(case['nested']):
                    self.tick(0)

        @handler('generate_events', priority=10)
        def on_ge(self, event):
            if case['where'] == 'ge' and state['armed']:
                if state['seen'] == case['at']:
                    self.nest()
                state['seen'] += 1

        @handler('bar_done', priority=10)
        def on_bar_done(self, *args):
            if case['where'] == 'done':
                self.nest()

        @handler('started')
        def on_started(self, *args):
            self.fire(foo())

        @handler('generate_events', priority=-50)
        def on_idle(self, event):
            event.reduce_time_left(0)       # never sleep
            state['n'] += 1
            if state['n'] > 30:
                self.stop()

        @handler('exception')
        def on_exception(self, etype, evalue, tb, handler=None, fevent=None):
            errors.append(f'{etype.__name__} in {getattr(fevent, "name", None)}')

    class Sink:
        def write(self, *_a):
            pass

        def flush(self):
            pass

    main = threading.current_thread() is threading.main_thread()
    if main:
        old = signal.getsignal(signal.SIGINT), signal.getsignal(signal.SIGTERM)
    saved = helpers.stderr, manager.stderr
    helpers.stderr = manager.stderr = Sink()
    app = App()
    try:
        app.run()
    finally:
        atexit.unregister(app.stop)
        helpers.stderr, manager.stderr = saved
        if main:
            signal.signal(signal.SIGINT, old[0])
            signal.signal(signal.SIGTERM, old[1])
    return outcomes, errors, state['fin']


def stale_done_cases(ctx):
    """where: the handler that re-enters tick() - 'done' = a bar_done handler (priority 1), 'ge' = a generate_events handler
    (priority 10) - at its `at`-th invocation (counted from the call); `timeout` None/0/1/2; the callee yields `delay` times."""
    for where in ('done', 'ge'):
        for at in (1, 2):
            for timeout in (None, 0, 1, 2):
                for delay in (0, 1, 2):
                    for nested in (1, 2):
                        check_stale_done(ctx, {'kind': 'stale_done', 'where': where, 'at': at, 'timeout': timeout,
                                               'delay': delay, 'nested': nested})


def check_stale_done(ctx, case):
    r = run_stale_done(case)
    ctx.case(case, nontrivial=True, validated=True)
    ctx.count('stale_done', case['where'] + ':' + '+'.join(r['outcomes'] or ['-']))
    if len(r['outcomes']) > 1 or r['foreign']:
        ctx.violate(case, 'resumed-twice(stale-done)',
                    f'outcomes of the one call: {r["outcomes"]}; values received at later plain yields: {r["foreign"]}')
    elif r['errors']:
        ctx.violate(case, 'spurious-exception(stale-closure)',
                    f'no user handler raises, yet exception events were fired: {r["errors"][:2]}')
    elif not r['outcomes'] or not r['finished'] or r['waiting'] != 0 or r['success'] != 1:
        ctx.violate(case, 'caller-event-never-completes(stale-done)',
                    f'outcomes {r["outcomes"]}, finished={r["finished"]}, waitingHandlers={r["waiting"]}, '
                    f'foo_success fired {r["success"]} times')


def run_stale_done(case):
    import atexit
    import signal
    import threading
    framework.setup_import_path()
    from circuits import Component, Event, handler
    from circuits.core import helpers, manager

    class foo(Event):
        success = True

    class bar(Event):
        pass

    res = {'outcomes': [], 'foreign': [], 'errors': [], 'finished': False, 'success': 0, 'waiting': None}
    state = {'armed': False, 'seen': 0, 'nesting': False, 'n': 0, 'ev': None}

    class App(Component):
        @handler('foo')
        def on_foo(self, event):
            state['ev'] = event
            e = bar()
            self.fire(e)                        # the event object is fired twice (as Timer does with its event)
            state['armed'] = True
            try:
                if case['timeout'] is None:
                    x = yield self.call(e)
                else:
                    x = yield self.call(e, timeout=case['timeout'])
                res['outcomes'].append('result' if x.value in (7, [7, 7]) else f'wrong-result:{x.value!r}')
            except manager.TimeoutError:
                res['outcomes'].append('timeout')
            for mark in ('Y1', 'Y2', 'Y3'):
                try:
                    got = yield mark
                    if got is not None:
                        res['foreign'].append(repr(got))
                except manager.TimeoutError:
                    res['outcomes'].append('late-timeout')
            res['finished'] = True

        if case['delay'] == 0:
            @handler('bar')
            def on_bar(self):
                return 7
        else:
            @handler('bar')
            def on_bar(self):
                for _ in range(case['delay']):
                    yield None
                yield 7

        def nest(self):
            state['seen'] += 1
            if state['seen'] == case['at'] and not state['nesting']:
                state['nesting'] = True
                for _ in range(case['nested']):
                    self.tick(0)

        @handler('bar_done', priority=1)
        def on_bar_done(self, *args):
            if case['where'] == 'done':
                self.nest()

        @handler('generate_events', priority=10)
        def on_ge(self, event):
            if case['where'] == 'ge' and state['armed']:
                self.nest()

        @handler('foo_success')
        def on_foo_success(self, *args):
            res['success'] += 1

        @handler('started')
        def on_started(self, *args):
            self.fire(foo())

        @handler('generate_events', priority=-50)
        def on_idle(self, event):
            event.reduce_time_left(0)       # never sleep
            state['n'] += 1
            if state['n'] > 40:
                self.stop()

        @handler('exception')
        def on_exception(self, etype, evalue, tb, handler=None, fevent=None):
            res['errors'].append(f'{etype.__name__} in {getattr(fevent, "name", None)}')

    class Sink:
        def write(self, *_a):
            pass

        def flush(self):
            pass

    main = threading.current_thread() is threading.main_thread()
    if main:
        old = signal.getsignal(signal.SIGINT), signal.getsignal(signal.SIGTERM)
    saved = helpers.stderr, manager.stderr
    helpers.stderr = manager.stderr = Sink()
    app = App()
    try:
        app.run()
    finally:
        atexit.unregister(app.stop)
        helpers.stderr, manager.stderr = saved
        if main:
            signal.signal(signal.SIGINT, old[0])
            signal.signal(signal.SIGTERM, old[1])
    res['waiting'] = getattr(state['ev'], 'waitingHandlers', None)
    return res

"""C06 - see core_mod.SPEC['C06'] (generators, projections) and core_props.oracle_c06 (spec on the implementation)."""
import core_mod


def run(ctx):
    core_mod.run(ctx, 'C06')


def search(ctx):
    core_mod.run(ctx, 'C06')


def replay(ctx, case):
    core_mod.replay(ctx, 'C06', case)

"""C06 - see core_mod.SPEC['C06'] (generators, projections) and core_props.oracle_c06 (spec on the implementation).

Plus a directed, implementation-only case list `stale_tick_cases` (both tiers): a handler that runs the task loop
(`self.tick()`) from inside a dispatch while `yield self.call(bar(), timeout=T)` is pending makes the enclosing
`_dispatcher` go on with a handler list computed before the temporary `waitEvent` handlers were removed.  The stale
closures must be harmless: the caller is resumed exactly once (result XOR TimeoutError) and nothing raises.
(The Act language of the core model has no `tick` action; the model reaches the same situation through `stop()` outside
the executing thread, see CV/Proofs/InvWait2Wit.lean.)"""
import core_mod
import framework


def run(ctx):
    core_mod.run(ctx, 'C06')
    stale_tick_cases(ctx)


def search(ctx):
    core_mod.run(ctx, 'C06')
    stale_tick_cases(ctx)


def replay(ctx, case):
    if case.get('kind') == 'stale_tick':
        check_stale(ctx, case)
    else:
        core_mod.replay(ctx, 'C06', case)


def stale_tick_cases(ctx):
    """where: 'ge' = a generate_events handler (priority 10) runs the nested ticks at its `at`-th invocation after the call
    was made; 'done' = a bar_done handler (priority 10) runs them.  `timeout` in loop iterations, `nested` ticks,
    the callee yields `delay` times before it returns (so that for some rows the callee finishes in exactly the iteration
    in which the countdown reaches 0)."""
    for timeout in (0, 1, 2):
        for delay in (0, 1, 2):
            for nested in (1, 2, 3):
                for at in (0, 1, 2, 3):
                    check_stale(ctx, {'kind': 'stale_tick', 'where': 'ge', 'timeout': timeout, 'delay': delay,
                                      'nested': nested, 'at': at})
                check_stale(ctx, {'kind': 'stale_tick', 'where': 'done', 'timeout': timeout, 'delay': delay,
                                  'nested': nested, 'at': 0})


def check_stale(ctx, case):
    outcomes, errors, finished = run_stale(case)
    got = [o for o in outcomes if o != 'none']
    ctx.case(case, nontrivial=True, validated=True)
    ctx.count('stale_tick', case['where'] + ':' + '+'.join(outcomes or ['-']))
    if len(got) > 1:
        ctx.violate(case, 'both-outcomes(stale-tick)',
                    f'the caller of call(bar(), timeout={case["timeout"]}) was resumed {len(got)} times: {got}')
    elif errors:
        ctx.violate(case, 'spurious-exception(stale-closure)',
                    f'no user handler raises, yet exception events were fired: {errors[:2]} (outcomes {outcomes})')
    elif not got or not finished:
        ctx.violate(case, 'caller-lost(stale-closure)', f'outcomes {outcomes}, finished={finished}')


def run_stale(case):
    """one real run() loop; returns (outcomes seen by the caller, exception events, caller finished)"""
    import atexit
    import signal
    import threading
    framework.setup_import_path()
    from circuits import Component, Event, handler
    from circuits.core import helpers, manager

    class foo(Event):
        pass

    class bar(Event):
        pass

    outcomes, errors, state = [], [], {'armed': False, 'seen': 0, 'nesting': False, 'fin': False, 'n': 0}

    class App(Component):
        @handler('foo')
        def on_foo(self):
            state['armed'] = True
            try:
                x = yield self.call(bar(), timeout=case['timeout'])
                outcomes.append('result' if x.value == 'bar-result' else 'wrong-result')
            except manager.TimeoutError:
                outcomes.append('timeout')
            for _ in range(3):
                try:
                    yield None
                except manager.TimeoutError:
                    outcomes.append('late-timeout')
            state['fin'] = True

        @handler('bar')
        def on_bar(self):
            for _ in range(case['delay']):
                yield None
            yield 'bar-result'

        def nest(self):
            if not state['nesting']:
                state['nesting'] = True
                for _ in range(case['nested']):
                    self.tick(0)

        @handler('generate_events', priority=10)
        def on_ge(self, event):
            if case['where'] == 'ge' and state['armed']:
                if state['seen'] == case['at']:
                    self.nest()
                state['seen'] += 1

        @handler('bar_done', priority=10)
        def on_bar_done(self, *args):
            if case['where'] == 'done':
                self.nest()

        @handler('started')
        def on_started(self, *args):
            self.fire(foo())

        @handler('generate_events', priority=-50)
        def on_idle(self, event):
            event.reduce_time_left(0)       # never sleep
            state['n'] += 1
            if state['n'] > 30:
                self.stop()

        @handler('exception')
        def on_exception(self, etype, evalue, tb, handler=None, fevent=None):
            errors.append(f'{etype.__name__} in {getattr(fevent, "name", None)}')

    class Sink:
        def write(self, *_a):
            pass

        def flush(self):
            pass

    main = threading.current_thread() is threading.main_thread()
    if main:
        old = signal.getsignal(signal.SIGINT), signal.getsignal(signal.SIGTERM)
    saved = helpers.stderr, manager.stderr
    helpers.stderr = manager.stderr = Sink()
    app = App()
    try:
        app.run()
    finally:
        atexit.unregister(app.stop)
        helpers.stderr, manager.stderr = saved
        if main:
            signal.signal(signal.SIGINT, old[0])
            signal.signal(signal.SIGTERM, old[1])
    return outcomes, errors, state['fin']

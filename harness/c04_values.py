"""C04, nested Values: `circuits/core/values.py` against the Lean model `CV.VT` (machine `valuetree`).

Family `valuetree`: operation sequences (random and small-scope exhaustive) on real `Value` objects with a stub manager that
records `fire` calls; after every operation the whole observable state (value / result / errors / promise / parent of every
cell, the notifications fired so far) is compared with the model's.
Family `nested-e2e`: a real Manager; handlers that `return self.fire(child)`; the Value operations the manager performs are
recorded through a recording subclass substituted for `circuits.core.manager.Value` and replayed on the model (correspondence),
and the parent event's final value / errors are judged against C04's statement with a nested value standing for its own
resolved value (`nested-value-mismatch(...)`).
"""
import io
import itertools

import framework

MODEL = 'valuetree'


def _imports():
    framework.setup_import_path()
    from circuits.core import values, manager, helpers, events
    return values, manager, helpers, events


# ---------------------------------------------------------------------------------------------------------------
# family 1: operation sequences on real Value objects
# ---------------------------------------------------------------------------------------------------------------

class StubManager:
    def __init__(self):
        self.fired = []

    def fire(self, e, *channels):
        self.fired.append(e)
        return None


def _ntf_py(t):
    if t == 'off':
        return False
    if t == 'on':
        return True
    return 'name' + t[1:]


class ImplSession:
    def __init__(self):
        self.values, _, _, self.events = _imports()
        self.mgr = StubManager()
        self.cells = []
        self.evs = []

    def idx(self, v):
        for i, c in enumerate(self.cells):
            if c is v:
                return i
        return '?'

    def enc_arg(self, x):
        if x is None:
            return 'N'
        if isinstance(x, self.values.Value):
            return 'r%s' % self.idx(x)
        if isinstance(x, int) and not isinstance(x, bool):
            return 'l%d' % x
        return '?%r' % (x,)

    def enc_stored(self, x):
        if isinstance(x, list):
            return 'm:' + ','.join(self.enc_arg(y) for y in x)
        return 'o:' + self.enc_arg(x)

    def state(self):
        cs = []
        for c in self.cells:
            cs.append('%s/%d/%d/%d/%s' % (self.enc_stored(c.getValue(False)), bool(c.result), bool(c.errors), bool(c.promise),
                                          self.idx(c.parent)))
        notes = []
        for e in self.mgr.fired:
            v = e.args[0] if e.args else None
            tgt = self.idx(v)
            own = self.evs[tgt] if isinstance(tgt, int) else None
            if own is not None and e.name == own.name + '_value_changed':
                notes.append('vc%s' % tgt)
            elif e.name.startswith('name') and e.name[4:].isdigit():
                notes.append('n%s:%s' % (e.name[4:], tgt))
            else:
                notes.append('?%s' % e.name)
        return ';'.join(cs) + ' | ' + ' '.join(notes)

    def arg(self, t):
        if t == 'N':
            return None
        if t[0] == 'l':
            return int(t[1:])
        return self.cells[int(t[1:])]

    def do(self, op):
        ts = op.split()
        try:
            if ts[0] == 'new':
                ev = self.events.Event.create('ev%d' % len(self.cells))
                ev.notify = _ntf_py(ts[2])
                v = self.values.Value(ev, self.mgr if ts[3] == '1' else None)
                v.notify = _ntf_py(ts[1])
                self.cells.append(v)
                self.evs.append(ev)
            elif ts[0] == 'set':
                self.cells[int(ts[1])].value = self.arg(ts[2])
            elif ts[0] == 'errors':
                self.cells[int(ts[1])].errors = ts[2] == '1'
            elif ts[0] == 'promise':
                self.cells[int(ts[1])].promise = ts[2] == '1'
            elif ts[0] == 'notify':
                self.cells[int(ts[1])].notify = _ntf_py(ts[2])
            elif ts[0] == 'inform':
                self.cells[int(ts[1])].inform(ts[2] == '1')
            elif ts[0] == 'get':
                c = self.cells[int(ts[1])]
                if ts[2] == '1':
                    # getValue(True) never returns on a cycle of single references: look before calling it
                    x, steps = c.getValue(False), 0
                    while isinstance(x, self.values.Value) and steps <= len(self.cells) + 1:
                        x, steps = x.getValue(False), steps + 1
                    if isinstance(x, self.values.Value):
                        return 'loop'
                return 'val ' + self.enc_stored(c.getValue(ts[2] == '1'))
        except RecursionError:
            return 'crash'
        return 'ok ' + self.state()


NTFS = ['off', 'on', 'n1', 'n2']


def _rand_case(rng):
    n = rng.choice([1, 2, 2, 3, 3, 4])
    ops = []
    for i in range(n):
        ops.append('new %s %s %d' % (rng.choice(NTFS + ['on', 'off']), rng.choice(['off', 'off', 'on', 'n2']),
                                     0 if rng.random() < 0.1 else 1))
    lit = itertools.count(1)
    tree_only = rng.random() < 0.6   # only nestings that keep the parent chains acyclic (the ordinary use)
    nested = set()
    for _ in range(rng.randint(1, 12)):
        r = rng.random()
        c = rng.randrange(n)
        if r < 0.55:
            k = rng.random()
            if k < 0.45:
                a = 'l%d' % next(lit)
            elif k < 0.55:
                a = 'N'
            else:
                d = rng.randrange(n)
                if tree_only:
                    cand = [x for x in range(n) if x not in nested and x > c]
                    if not cand:
                        a = 'l%d' % next(lit)
                        ops.append('set %d %s' % (c, a))
                        continue
                    d = rng.choice(cand)
                    nested.add(d)
                a = 'r%d' % d
            ops.append('set %d %s' % (c, a))
        elif r < 0.7:
            ops.append('errors %d %d' % (c, 1 if rng.random() < 0.8 else 0))
        elif r < 0.8:
            ops.append('promise %d %d' % (c, rng.randrange(2)))
        elif r < 0.87:
            ops.append('notify %d %s' % (c, rng.choice(NTFS)))
        elif r < 0.94:
            ops.append('inform %d %d' % (c, rng.randrange(2)))
        else:
            ops.append('get %d %d' % (c, rng.randrange(2)))
    for c in range(n):
        ops.append('get %d 0' % c)
        ops.append('get %d 1' % c)
    return ops


def _exhaustive_cases(ncells, length, ntfs):
    news = ['new %s off 1' % ntfs[i % len(ntfs)] for i in range(ncells)]
    alpha = []
    for c in range(ncells):
        alpha += ['set %d N' % c, 'set %d l7' % c] + ['set %d r%d' % (c, d) for d in range(ncells)]
        alpha += ['errors %d 1' % c, 'promise %d 1' % c]
    tail = []
    for c in range(ncells):
        tail += ['get %d 0' % c, 'get %d 1' % c]
    for k in range(1, length + 1):
        for seq in itertools.product(alpha, repeat=k):
            # distinct atoms: number the literals
            ops, j = [], 0
            for o in seq:
                if o.endswith(' l7'):
                    j += 1
                    o = o[:-1] + str(j)
                ops.append(o)
            yield news + ops + tail


def _run_impl(ops):
    sess = ImplSession()
    out = []
    for op in ops:
        if out and out[-1] == 'crash':
            break
        out.append(sess.do(op))
    return out


def _check_cases(ctx, cases, kind):
    res = ctx.driver.batch(MODEL, cases)
    for ops, mod in zip(cases, res):
        case = {'family': 'valuetree', 'kind': kind, 'ops': ops}
        with ctx.guard(case):
            imp = _run_impl(ops)
        # after a crash (RecursionError) the session ends; the model answers bad-op from there on
        mod = mod[:len(imp)]
        ctx.case(case, nontrivial=True)
        ctx.count('vt.kind', kind)
        ctx.count('vt.ops', len(ops))
        ctx.count('vt.outcome', 'crash' if imp and imp[-1] == 'crash' else 'ok')
        for op in ops:
            ts = op.split()
            ctx.count('vt.op', ts[0] + ('-' + ('ref' if ts[2][0] == 'r' else 'lit' if ts[2][0] == 'l' else 'none') if ts[0] == 'set' else ''))
        if any(o.startswith('val m:') and 'r' in o for o in imp):
            ctx.count('vt.shape', 'list-with-nested')
        if any(o.startswith('val o:l') for o in imp):
            ctx.count('vt.shape', 'single')
        if any(o == 'loop' for o in imp):
            ctx.count('vt.shape', 'getvalue-loop')
        if imp != mod:
            i = next((k for k in range(min(len(imp), len(mod))) if imp[k] != mod[k]), min(len(imp), len(mod)))
            ctx.disagree(case, {'where': 'valuetree:' + (ops[i].split()[0] if i < len(ops) else 'len'), 'step': i,
                                'impl': imp[i] if i < len(imp) else None, 'model': mod[i] if i < len(mod) else None})


def run_valuetree(ctx):
    rng = ctx.rng
    n_rand = 500 * ctx.scale
    cases = [_rand_case(rng) for _ in range(n_rand)]
    _check_cases(ctx, cases, 'random')
    ex = list(_exhaustive_cases(2, 3, ['on', 'n1'])) + list(_exhaustive_cases(3, 2, ['on', 'off', 'n1']))
    if ctx.scale > 1:
        ex += list(_exhaustive_cases(1, 5, ['on']))
    _check_cases(ctx, ex, 'exhaustive')
    ctx.extra['valuetree_exhaustive'] = ('all sequences of <=3 ops on 2 cells and of <=2 ops on 3 cells over {set c None|atom|any cell, '
                                         'errors c, promise c}: %d cases' % len(ex))


# ---------------------------------------------------------------------------------------------------------------
# family 2: end to end on a real Manager
# ---------------------------------------------------------------------------------------------------------------
# scenario: {'notify': bool, 'handlers': [H...]}  H = ['ret', n] | ['none'] | ['raise'] | ['gen', n] | ['genraise'] |
#           ['nest', [H...]]   (return self.fire(child) where the child event has the handlers [H...])

class _Recorder:
    def __init__(self, values):
        self.cells = []
        self.ops = []
        self.atoms = []
        self.values = values
        self.quiet = 0

    def idx(self, v):
        for i, c in enumerate(self.cells):
            if c is v:
                return i
        return None

    def atom(self, x):
        if isinstance(x, int) and not isinstance(x, bool):
            return x
        for i, a in enumerate(self.atoms):
            if a is x:
                return 1000 + i
        self.atoms.append(x)
        return 1000 + len(self.atoms) - 1

    def arg(self, x):
        if x is None:
            return 'N'
        if isinstance(x, self.values.Value):
            return 'r%d' % self.idx(x)
        return 'l%d' % self.atom(x)


def _make_recording_value(values, rec):
    Base = values.Value

    class RecValue(Base):
        def __init__(self, event=None, manager=None):
            rec.quiet += 1
            try:
                Base.__init__(self, event, manager)
            finally:
                rec.quiet -= 1
            rec.cells.append(self)
            nt = getattr(event, 'notify', False)
            rec.ops.append('new off %s %d' % ('on' if nt is True else 'off' if not nt else 'n1', 0 if manager is None else 1))

        def __setattr__(self, k, v):
            if not rec.quiet and k in ('errors', 'promise'):
                rec.ops.append('%s %d %d' % (k, rec.idx(self), 1 if v else 0))
            object.__setattr__(self, k, v)

        def _set(self, v):
            rec.ops.append('set %d %s' % (rec.idx(self), rec.arg(v)))
            rec.quiet += 1
            try:
                Base.setValue(self, v)
            finally:
                rec.quiet -= 1

        def _inform(self, force=False):
            if not rec.quiet:
                rec.ops.append('inform %d %d' % (rec.idx(self), 1 if force else 0))
            rec.quiet += 1
            try:
                Base.inform(self, force)
            finally:
                rec.quiet -= 1

        inform = _inform
        value = property(Base.getValue, _set)

    return RecValue


def _gen_handlers(rng, depth, top=False):
    hs = []
    for _ in range(rng.choice([1, 1, 2, 2, 3])):
        r = rng.random()
        if depth > 0 and r < (0.5 if top else 0.25):
            hs.append(['nest', _gen_handlers(rng, depth - 1)])
        elif r < 0.6:
            hs.append(['ret', rng.randrange(1, 90)])
        elif r < 0.7:
            hs.append(['none'])
        elif r < 0.82:
            hs.append(['raise'])
        elif r < 0.93:
            hs.append(['gen', rng.randrange(1, 90)])
        else:
            hs.append(['genraise'])
    return hs


def _gen_scenario(rng):
    hs = _gen_handlers(rng, 2, top=True)
    if not any(h[0] == 'nest' for h in hs):
        hs[rng.randrange(len(hs))] = ['nest', _gen_handlers(rng, 1)]
    return {'family': 'nested-e2e', 'notify': rng.random() < 0.4, 'handlers': hs}


def _expected(hs):
    """C04's statement, a nested value standing for its own resolved value: (resolved value, errors)"""
    items, err = [], False
    for h in hs:
        if h[0] in ('ret', 'gen'):
            items.append(h[1])
        elif h[0] in ('raise', 'genraise'):
            items.append('ERR')
            err = True
        elif h[0] == 'nest':
            v, e = _expected(h[1])
            items.append(v)
            err = err or e
    if not items:
        return None, err
    if len(items) == 1:
        return items[0], err
    return items, err


def _known_shapes(hs):
    """classifier: the shapes on which the code departed from the statement before fix d96e696 (a result produced after a
    still unresolved nested value; an error flag followed by a nested value) - they give a failure its signature"""
    out = set()
    seen_nest = False
    seen_raise = False
    for h in hs:
        produces = h[0] != 'none'
        if seen_nest and produces:
            out.add('result-after-unresolved-nested')
        if h[0] == 'nest':
            if seen_raise:
                out.add('errors-replaced-by-nested')
            # an error inside the nested event arrives only if the nested value is still linked (see above)
            seen_nest = True
            out |= _known_shapes(h[1])
        if h[0] in ('raise', 'genraise'):
            seen_raise = True
    for i, h in enumerate(hs):
        if h[0] == 'nest' and any(g[0] in ('gen', 'genraise') for j, g in enumerate(hs) if j != i):
            out.add('result-after-unresolved-nested')   # a coroutine handler's result arrives after the nested value was stored
    # an earlier value with errors=True is overwritten by the copy-up from a nested value without error
    if seen_nest and any(h[0] in ('raise', 'genraise') for h in hs):
        out.add('errors-replaced-by-nested')
    return out


def _observe(values, v, depth=0):
    """what an observer gets through the public interface: `v.value` (= getValue(recursive=True)); Values inside a list
    are looked at the same way"""
    if depth > 8:
        return 'DEEP'
    x = v.value

    def item(y):
        if isinstance(y, values.Value):
            return _observe(values, y, depth + 1)
        if isinstance(y, tuple) and len(y) == 3 and isinstance(y[0], type) and issubclass(y[0], BaseException):
            return 'ERR'
        return y
    if isinstance(x, values.Value):
        return 'UNRESOLVED-VALUE-OBJECT'
    if isinstance(x, list):
        return [item(y) for y in x]
    return item(x)


def _run_e2e(scn):
    values, manager, helpers, events = _imports()
    from circuits import Component, handler
    rec = _Recorder(values)
    RecValue = _make_recording_value(values, rec)
    old_value, old_err = manager.Value, helpers.stderr
    manager.Value = RecValue
    helpers.stderr = io.StringIO()
    try:
        counter = itertools.count()
        root = Component()
        tops = []

        def build(hs, notify):
            name = 'e%d' % next(counter)
            ev_cls = type(name, (events.Event,), {'notify': notify})
            n_h = len(hs)
            for i, h in enumerate(hs):
                kind = h[0]
                if kind == 'nest':
                    child = build(h[1], False)

                    def fn(self, _child=child):
                        return self.fire(_child())
                elif kind == 'ret':
                    def fn(self, _v=h[1]):
                        return _v
                elif kind == 'none':
                    def fn(self):
                        return None
                elif kind == 'raise':
                    def fn(self):
                        raise ValueError('boom')
                elif kind == 'gen':
                    def fn(self, _v=h[1]):
                        yield None
                        yield _v
                else:
                    def fn(self):
                        yield None
                        raise KeyError('later')
                fn.__name__ = '%s_h%d' % (name, i)
                comp = type('C_' + fn.__name__, (Component,), {fn.__name__: handler(name, priority=n_h - i)(fn)})
                comp().register(root)
            return ev_cls

        top = build(scn['handlers'], scn['notify'])
        for _ in range(3):
            root.tick(0)  # registrations
        v = root.fire(top())
        for _ in range(80):
            root.tick(0)
        obs = (_observe(values, v), bool(v.errors), bool(v.result))
        top_idx = rec.idx(v)
        impl_cells = []
        for c in rec.cells:
            x = c.getValue(False)
            enc = ('m:' + ','.join(rec.arg(y) for y in x)) if isinstance(x, list) else 'o:' + rec.arg(x)
            impl_cells.append('%s/%d/%d/%d/%s' % (enc, bool(c.result), bool(c.errors), bool(c.promise), rec.idx(c.parent)))
        return obs, top_idx, rec.ops, impl_cells
    finally:
        manager.Value = old_value
        helpers.stderr = old_err


def _judge_e2e(ctx, scn, obs):
    exp_v, exp_e = _expected(scn['handlers'])
    got_v, got_e, _ = obs
    shapes = _known_shapes(scn['handlers'])
    if _has_empty_nest(scn['handlers']):
        # a nested value that never receives a result: the statement does not say whether the (non-None) Value object with
        # nothing in it counts as a result - compare the sequences of leaves only
        got_v, exp_v = _leaves(got_v), _leaves(exp_v)
    if any(k in ('gen', 'genraise') for k in _flat(scn['handlers'])):
        # results of coroutine handlers arrive later: the statement fixes the order of production, which the scenario does
        # not determine - compare as multisets
        got_v, exp_v = _canon(got_v), _canon(exp_v)
    if got_v != exp_v:
        sig = 'nested-value-mismatch(result-after-unresolved-nested)' if 'result-after-unresolved-nested' in shapes \
            else 'nested-value-mismatch(value)'
        ctx.violate(scn, sig, 'handlers %r: value of the event resolves to %r, the statement gives %r' % (scn['handlers'], got_v, exp_v))
        return 'value'
    if got_e != exp_e:
        if exp_e and not got_e and 'errors-replaced-by-nested' in shapes:
            sig = 'nested-value-mismatch(errors-replaced-by-nested)'
        elif 'result-after-unresolved-nested' in shapes:
            sig = 'nested-value-mismatch(result-after-unresolved-nested)'
        else:
            sig = 'nested-value-mismatch(errors)'
        ctx.violate(scn, sig, 'handlers %r: errors=%r, the statement gives %r' % (scn['handlers'], got_e, exp_e))
        return 'errors'
    return 'ok'


def _leaves(x):
    if isinstance(x, list):
        return [z for y in x for z in _leaves(y)]
    return [] if x is None else [x]


def _has_empty_nest(hs):
    return any(h[0] == 'nest' and (_expected(h[1])[0] is None or _has_empty_nest(h[1])) for h in hs)


def _canon(x):
    import json
    if isinstance(x, list):
        return sorted((_canon(y) for y in x), key=lambda y: json.dumps(y, sort_keys=True))
    return x


def _e2e_cases(ctx, scns):
    runs = []
    for scn in scns:
        with ctx.guard(scn):
            runs.append(_run_e2e(scn))
    res = ctx.driver.batch(MODEL, [r[2] for r in runs])
    for scn, (obs, top_idx, ops, impl_cells), mod in zip(scns, runs, res):
        ctx.case(scn, nontrivial=True)
        ctx.count('e2e.recorded-value-ops', len(ops))
        ctx.count('e2e.top-handlers', len(scn['handlers']))
        for h in _flat(scn['handlers']):
            ctx.count('e2e.handler-kind', h)
        ctx.count('e2e.depth', _depth(scn['handlers']))
        shapes = _known_shapes(scn['handlers'])
        ctx.count('e2e.shape', '+'.join(sorted(shapes)) or 'statement-shape')
        last = mod[-1] if mod else ''
        if not last.startswith('ok '):
            ctx.disagree(scn, {'where': 'e2e:model-answer', 'impl': ops, 'model': mod[-3:]})
            continue
        mcells = last[3:].split(' | ')[0].split(';')
        if mcells != impl_cells:
            ctx.disagree(scn, {'where': 'e2e:final-cells', 'impl': impl_cells, 'model': mcells, 'ops': ops})
        ctx.count('e2e.verdict', _judge_e2e(ctx, scn, obs))


def _flat(hs):
    for h in hs:
        yield h[0]
        if h[0] == 'nest':
            yield from _flat(h[1])


def _depth(hs):
    return max([1 + _depth(h[1]) for h in hs if h[0] == 'nest'] + [0])


def _small_e2e():
    """every top event with <= 2 handlers over {ret, none, raise, gen, genraise, nest[one of ret/raise/gen/genraise/none]}"""
    leaf = [['ret', 5], ['none'], ['raise'], ['gen', 6], ['genraise']]
    kinds = leaf + [['nest', [l]] for l in leaf] + [['nest', [['ret', 8], ['raise']]], ['nest', [['nest', [['ret', 9]]]]]]
    for k in (1, 2):
        for hs in itertools.product(kinds, repeat=k):
            if any(h[0] == 'nest' for h in hs):
                yield {'family': 'nested-e2e', 'notify': k == 1, 'handlers': [list(h) for h in hs]}


def run_e2e(ctx):
    scns = list(_small_e2e())
    scns += [_gen_scenario(ctx.rng) for _ in range(150 * ctx.scale)]
    _e2e_cases(ctx, scns)


def run(ctx):
    for c in ctx.corpus():
        if handles(c):
            replay(ctx, c)
    run_valuetree(ctx)
    run_e2e(ctx)
    ctx.rule = (ctx.rule or '') + (' | nested values: every generated and every manager-recorded Value operation sequence gives the same '
                                   'cells and notifications in circuits.core.values and in CV.VT (machine valuetree); the value of an '
                                   'event whose handlers return self.fire(..) is judged against the statement (nested value = its '
                                   'resolved value)')
    ctx.assumptions += ['value layer: results are None, non-list atoms or Value objects (a handler returning a Python list is not modelled)']


def handles(case):
    return isinstance(case, dict) and case.get('family') in ('valuetree', 'nested-e2e')


def replay(ctx, case):
    if case.get('family') == 'valuetree':
        _check_cases(ctx, [case['ops']], case.get('kind', 'replay'))
    else:
        _e2e_cases(ctx, [case])

"""Thin per-property modules for the core machine are built from this table."""
import json
import os
import random

import core_gen
import core_props as cp

CORE_TRUSTED = [
    'CPython: heapq minimum, sorted() stability, set/dict membership by identity, deque FIFO, generator protocol',
    'instrumentation is external (class-level wrappers restored after each scenario); single thread',
    'free choices of the code (set iteration order of equal-priority handlers and of tasks) are taken from the '
    'implementation log (tape); theorems hold for every tape',
]

SPEC = {
    'C01': dict(manual=[(['tree', 'chan', 'catchall', 'dynh', 'structural', 'prio'], 660), (['chan', 'catchall', 'dynh'], 240)],
                run=[], patterns=150, cache_patterns=300, kinds={'D', 'I'}, opts=dict(tree=True),
                nontrivial=lambda w: len(w.side['expect']) >= 3 and any(op[0] == 'do' and op[2][0] in ('reg', 'unreg', 'addH', 'rmH') for op in w.ops),
                rule='random forests (<=4 components, channels *, n1, n2, instances; named / catch-all / global handlers; '
                     'dynamic add/removeHandler; register/unregister incl. from handlers) x histories of fires and ticks; '
                     'non-trivial = >=3 dispatches and a structural change'),
    'C02': dict(manual=[(['prio', 'stop', 'flushact', 'values'], 750), (['prio', 'stop', 'gen', 'values', 'flags'], 300)], run=[],
                multichan_patterns=150, kinds={'B', 'D', 'I', 'O'}, opts={},
                nontrivial=lambda w: len([e for e in w.log if e[0] == 'D']) >= 4,
                rule='random programs of fire(priority=p) from outside and from handlers (nesting <=5, priorities from '
                     '{-2,-1,-.5,0,.5,1,2}), handler priorities from the same grid, stop() at random handlers, flush() from '
                     'handlers; plus events delivered on 2-3 channels at once (success_channels) with handlers of interleaved '
                     'priorities spread over those channels; non-trivial = >=4 dispatches'),
    'C04': dict(manual=[(['prio', 'values', 'gen', 'flags', 'stop'], 900), (['values', 'gen', 'flags', 'chan'], 300)], run=[],
                exc_patterns=120, kinds={'F', 'D', 'I', 'P'}, opts=dict(values=True),
                nontrivial=lambda w: any(e.startswith('P') for e in w.log) or any(':3' in e or '906' in e for e in w.log),
                rule='handlers drawn from {return v, return None, raise, generator yielding k values, generator raising at step j} '
                     'x success/failure/notify flags x success_channels x nested fires; non-trivial = a generator step or a raise'),
    'C05': dict(manual=[(['values', 'gen', 'flags', 'cancel', 'stop', 'exec'], 750), (['values', 'gen', 'flags', 'cancel', 'prio'], 300),
                        (['values', 'gen', 'flags', 'call', 'genfire'], 300)],
                run=[], kinds={'F', 'D'}, opts={},
                nontrivial=lambda w: any(':4' in e for e in w.log),
                rule='event trees (fan-out <=3, depth <=5, several roots with complete=True, nested requesters) with descendants '
                     'cancelled / stopped / raising / fired from generator steps, also from the step that resumes from call()/wait(); '
                     'both with and without an executing thread; '
                     'non-trivial = a complete event was fired'),
    'C06': dict(manual=[(['values', 'gen', 'call', 'flags', 'chan'], 600), (['values', 'gen', 'call', 'prio', 'stop'], 240)],
                run=[(['values', 'gen', 'call', 'timeout', 'flags'], 210)], sharedwait_patterns=120,
                kinds={'F', 'D', 'I', 'P', 'R', 'T'}, opts=dict(values=True, residue=True), extra=('C04',),
                nontrivial=lambda w: any(e[0] in 'RT' for e in w.log),
                rule='acyclic programs of handlers that return / yield / call() / wait() (by object and by name, sequential and '
                     'nested), concurrent roots, raising callees, timeouts {0,1,2,5} under a real run() loop on a virtual clock; '
                     'non-trivial = a caller was resumed or timed out'),
    'C07': dict(manual=[(['tree', 'chan', 'structural', 'values'], 750), (['tree', 'structural', 'gen', 'dynh'], 240)], run=[],
                patterns=120, kinds={'F', 'D', 'I'}, opts=dict(tree=True), extra=('C01',),
                nontrivial=lambda w: len(w.side['moves']) >= 2,
                rule='histories over a pool of <=4 components of register (admissible only) / unregister / fire / tick of any root, '
                     'incl. nested unregistration, re-registration, unregister from handlers; non-trivial = >=2 attach/detach transitions'),
    'C08': dict(manual=[], run=[(['prio', 'values'], 360), (['prio', 'values', 'gen', 'flags'], 180)],
                stop_patterns=150, kinds={'F', 'D', 'I', 'B'}, opts={},
                nontrivial=lambda w: any(op[0] == 'run' for op in w.ops),
                rule='run() of programs with stop()/SystemExit/KeyboardInterrupt placed in started / mid-chain / generator step / '
                     'stopped handler, exit codes {None,0,3}, 1-2 run cycles, stop() on an idle manager; virtual clock'),
    'C09': dict(manual=[], run=[(['prio', 'values', 'timers', 'gen'], 300), (['prio', 'values', 'timers', 'gen', 'deadlines'], 150)],
                kinds={'F', 'D', 'W', 'H'}, opts={},
                nontrivial=lambda w: len(w.side['tfires']) >= 2,
                rule='1-5 timers (intervals {0,1,8,16,32,64}/64 s or an absolute datetime deadline inside / at the start of a second / in '
                     'the past, persistent or not, reset / unregistered from handlers) with '
                     'ordinary events and generator tasks under run() on a virtual clock; non-trivial = >=2 timer firings'),
}


def scenarios(ctx, prop):
    sp = SPEC[prop]
    out = []
    for c in ctx.corpus():
        if c.get('kind') == 'scenario':
            out.append(c['scenario'])
    for feats, n in sp['manual']:
        for _ in range(max(1, n * ctx.scale // (1 if ctx.scale == 1 else 2))):
            out.append(core_gen.gen_scenario(ctx.rng, feats))
    for _ in range(sp.get('patterns', 0) * ctx.scale):
        out.append(core_gen.gen_detach_pattern(ctx.rng))
    for _ in range(sp.get('cache_patterns', 0) * ctx.scale):
        out.append(core_gen.gen_cache_pattern(ctx.rng))
    for _ in range(sp.get('multichan_patterns', 0) * ctx.scale):
        out.append(core_gen.gen_multichan_pattern(ctx.rng))
    for _ in range(sp.get('exc_patterns', 0) * ctx.scale):
        out.append(core_gen.gen_exc_handler_pattern(ctx.rng))
    for _ in range(sp.get('stop_patterns', 0) * ctx.scale):
        out.append(core_gen.gen_stop_pattern(ctx.rng))
    for _ in range(sp.get('sharedwait_patterns', 0) * ctx.scale):
        out.append(core_gen.gen_shared_wait_pattern(ctx.rng))
    for feats, n in sp['run']:
        for _ in range(max(1, n * ctx.scale // (1 if ctx.scale == 1 else 2))):
            out.append(core_gen.gen_run_scenario(ctx.rng, feats))
    # about a quarter of the generated handlers are declared without the `event` parameter (`def h(self, *args, **kwargs)`):
    # the dispatcher then calls them with the event's arguments only; the program they run is the same (a separate
    # generator so that the scenario stream itself is unchanged; corpus scenarios are left as they were recorded)
    r2 = random.Random(ctx.seed * 7919 + 4242 + int(prop[1:]))
    for sc in out[len([c for c in ctx.corpus() if c.get('kind') == 'scenario']):]:
        if r2.random() < 0.3:
            sc['prepared'] = True       # event objects are created ahead of time, in another order than they are fired
            ctx.count('event_objects', 'prepared-ahead')
        else:
            ctx.count('event_objects', 'created-at-fire')
        for c in sc.get('comps', []):
            for h in c.get('handlers', []):
                if r2.random() < 0.25:
                    h['noev'] = True
                    ctx.count('handler_signature', 'without-event-parameter')
                else:
                    ctx.count('handler_signature', 'with-event-parameter')
    return out


def run(ctx, prop):
    sp = SPEC[prop]
    ctx.rule = sp['rule']
    ctx.trusted += CORE_TRUSTED
    ctx.assumptions += ['programs are acyclic (an event name only causes higher-numbered names)',
                        'outside the modelled programs: handlers returning Value objects, Sleep, multi-channel wait, '
                        'catch TimeoutError and call() again in the same step']
    cp.run_scenarios(ctx, prop, scenarios(ctx, prop), sp['kinds'], sp['nontrivial'],
                     extra_oracles=sp.get('extra', ()), **sp['opts'])
    # shrink violating scenarios (one per signature) so that the replay is small
    seen = set()
    for v in ctx.violations:
        if v['signature'] in seen or v['case'].get('shrunk'):
            continue
        seen.add(v['signature'])
        if len(seen) > 4:
            break
        try:
            small = cp.shrink_scenario(ctx, prop, v['case']['scenario'], v['signature'])
            v['case'] = {'kind': 'scenario', 'scenario': small, 'shrunk': True}
        except Exception:
            pass


def replay(ctx, prop, case):
    sp = SPEC[prop]
    cp.replay_scenario(ctx, prop, case, sp['kinds'], extra_oracles=sp.get('extra', ()), **sp['opts'])

"""
C13, back-to-back (pipelined) request streams: tie of CV/Model/HttpServerPipe.lean (machine `httppipe`) on the real
`circuits.web.http.HTTP` component, and the judgement of C13's statement on sequences.

A case is a byte stream made of 2-4 grammar requests (c13.gen_request, plus HEAD with and without a body and
`Expect: 100-continue`) and a list of absolute cut positions:

  * kind of cutting `respect`: every request boundary is a cut (+ arbitrary cuts inside the requests, byte-at-a-time
    included) - this is what the property statement quantifies over (keep-alive, each request after the previous
    response).  JUDGED on the implementation: the dispatched request list, the bytes written and the closes equal those
    of one-piece-per-request delivery (spec op `specsame` for the request list); the number of interim `100 Continue`
    writes is the same under every cutting.
  * `straddle` / `onepiece`: at least one read holds the end of request k and the start of request k+1.  The statement
    excludes pipelining; the code appends such bytes to the body of request k or drops them with the parser (see the
    model's header).  These deliveries are TIED (model = implementation, read by read) and their effect is counted
    (histogram pipe_straddle_effect), never judged.

The lexer tables are filled for every suffix of the stream that starts at a read boundary: a parser is only ever
created at the start of a read.
"""
from framework import cuts_to_segments, hx, unhx

CRLF = b'\r\n'


def _c13():
    import c13
    return c13


def gen_stream(rng):
    c13 = _c13()
    n = rng.choice([2, 2, 3, 4])
    msgs = []
    for _ in range(n):
        m = c13.gen_request(rng, maxbody=30)
        i = m.find(CRLF)
        r = rng.random()
        if r < 0.25:                                   # HEAD (with whatever framing the grammar gave it)
            m = b'HEAD' + m[m.find(b' '):]
            i = m.find(CRLF)
        if rng.random() < 0.25:                        # Expect: 100-continue
            m = m[:i + 2] + rng.choice([b'Expect: 100-continue', b'expect: 100-Continue']) + CRLF + m[i + 2:]
        msgs.append(m)
    return msgs


def gen_cuts(rng, msgs, mode):
    bounds, pos = [], 0
    for m in msgs[:-1]:
        pos += len(m)
        bounds.append(pos)
    total = sum(len(m) for m in msgs)
    if mode == 'onepiece':
        return []
    if mode == 'bytewise':
        return list(range(1, total))
    inner = sorted(set(rng.randrange(1, total) for _ in range(rng.choice([0, 1, 2, 3, 6]))))
    if mode == 'respect':
        return sorted(set(inner) | set(bounds))
    # straddle: drop at least one boundary, and cut close to it on either side now and then
    drop = set(rng.sample(bounds, rng.randint(1, len(bounds))))
    cuts = (set(inner) | set(bounds)) - drop
    for b in drop:
        if rng.random() < 0.5:
            cuts.add(max(1, b - rng.choice([1, 2, 3, 4])))
        if rng.random() < 0.5:
            cuts.add(min(total - 1, b + rng.choice([1, 2, 3, 5, 17])))
    return sorted(cuts - drop)


def gen_cases(ctx):
    rng = ctx.rng
    cases = []
    for _ in range(70 * ctx.scale):
        msgs = gen_stream(rng)
        for mode in ('respect', 'straddle', 'straddle', 'onepiece') + (('bytewise',) if rng.random() < 0.15 else ()):
            cases.append({'kind': 'pipe', 'msgs': [hx(m) for m in msgs], 'cuts': gen_cuts(rng, msgs, mode)})
    return cases


def bounds_of(msgs):
    out, pos = [], 0
    for m in msgs[:-1]:
        pos += len(m)
        out.append(pos)
    return out


def deliver(pool, segs):
    c13 = _c13()
    rig, ident = pool.server()
    return c13.run_server(rig, ident, [segs])


def interim(res):
    return sum(1 for x in res for o in x['outs'] if o[0] == 'write' and o[2][:12].upper().startswith(b'HTTP/1.1 100'))


def req_item(r):
    return hx(repr(sorted(r.items())).encode())


def effect(msgs, one_reqs, reqs):
    if reqs == one_reqs:
        return 'same-dispatch'
    if len(reqs) < len(one_reqs):
        k = next((i for i, (a, b) in enumerate(zip(reqs, one_reqs)) if a != b), len(reqs))
        if k < len(reqs) and reqs[k]['body'] != one_reqs[k]['body'] and reqs[k]['body'].startswith(one_reqs[k]['body']):
            return 'next-request-bytes-in-body-of-k'
        return 'request-lost'
    return 'request-differs'


def eval_pipe(ctx, cases):
    c13 = _c13()
    pool = c13.RigPool()
    ops, keep = [], []
    one_cache = {}
    try:
        for c in cases:
            msgs = [unhx(m) for m in c['msgs']]
            stream = b''.join(msgs)
            bounds = bounds_of(msgs)
            segs = cuts_to_segments(stream, c['cuts'])
            cutset = set(cc for cc in c['cuts'] if 0 < cc < len(stream))
            respect = all(b in cutset for b in bounds)
            t = c13.LexTables()
            try:
                pos = 0
                for s in segs:
                    suffix = stream[pos:]
                    t.add_message(0, suffix)
                    i = suffix.find(CRLF)
                    if i >= 0 and suffix[i + 2:i + 4] == CRLF:
                        # the read may end right after the empty header block: `_parse_headers(CRLF)`
                        t.add_message(0, suffix[:i + 4])
                    pos += len(s)
                for m in msgs:
                    t.add_message(0, m)
            except c13.Unsupported as e:
                ctx.count('unsupported', str(e))
                continue
            finally:
                c13.LEXTIE.add_tables(t)
            key = tuple(c['msgs'])
            with ctx.guard(c, what='pipelined delivery to the HTTP component'):
                if key not in one_cache:
                    one_cache[key] = deliver(pool, msgs)
                one = one_cache[key]
                res = deliver(pool, segs)
            one_sum, res_sum = c13.server_summary(one), c13.server_summary(res)
            mode = 'respect' if respect else ('onepiece' if not cutset else 'straddle')
            ctx.count('pipe_mode', mode)
            # --- C: the statement, on the implementation alone
            judged = None
            if respect:
                judged = [str(len(one_sum[0]))] + [req_item(r) for r in one_sum[0]] + [req_item(r) for r in res_sum[0]]
                if res_sum[1:] != one_sum[1:]:
                    ctx.violate(c, 'pipe:response-bytes-depend-on-cuts(boundary-respecting)',
                                f'one piece per request: {len(one_sum[1])} bytes written, {one_sum[2]} close; cut at '
                                f'{c["cuts"]}: {len(res_sum[1])} bytes, {res_sum[2]} close, last status '
                                f'{c13.last_status(res_sum[1])}')
            else:
                ctx.count('pipe_straddle_effect', effect(msgs, one_sum[0], res_sum[0]))
            if interim(res) != interim(one):
                ctx.violate(c, 'pipe:interim-100-continue-count-depends-on-cuts',
                            f'one piece per request: {interim(one)} interim response(s); cut at {c["cuts"]}: {interim(res)}')
            ctx.count('pipe_interim_writes', interim(res))
            o = t.lines()
            skip = len(o)
            o.append('pipe 0 ' + ' '.join(hx(s) for s in segs))
            if judged is not None:
                o.append('specsame ' + ' '.join(judged))
            ops.append(o)
            keep.append((c, t, skip, res, one_sum, res_sum, msgs, judged is not None))
        answers = ctx.driver.batch('httppipe', ops)
    finally:
        pool.close()
    for (c, t, skip, res, one_sum, res_sum, msgs, judged), ans in zip(keep, answers):
        ok = True
        if judged:
            verdict = ans[skip + 1].strip()
            if verdict != 'ok':
                ctx.violate(c, 'pipe:' + verdict.replace('fail ', '') + '(boundary-respecting cuts)',
                            f'one piece per request dispatches {len(one_sum[0])} request(s) '
                            f'{[(r["method"], r["path"], r["body"]) for r in one_sum[0]]!r}; cut at {c["cuts"]}: '
                            f'{[(r["method"], r["path"], r["body"]) for r in res_sum[0]]!r}')
        a = ans[skip]
        if '|' not in a:
            ctx.disagree(c, {'where': 'pipe.op', 'model': a})
            ctx.case(c, nontrivial=True, validated=False)
            continue
        left, tail = a.rsplit('|', 1)
        outs = [x.strip() for x in left.split(' ; ')]
        if len(outs) != len(res):
            ok = False
            ctx.disagree(c, {'where': 'pipe.reads', 'impl': len(res), 'model': len(outs)})
        else:
            for i, (x, m) in enumerate(zip(res, outs)):
                fields = m.split()
                if fields[0] != x['kind']:
                    ok = False
                    ctx.disagree(c, {'where': 'pipe.out', 'read': i, 'impl': x['kind'], 'model': m})
                    break
                if fields[0] == 'request':
                    exp = c13.expected_request(t, fields)
                    if exp is None or [exp] != x['reqs']:
                        ok = False
                        ctx.disagree(c, {'where': 'pipe.request', 'read': i, 'impl': x['reqs'], 'model': exp})
                        break
        kv = dict(f.split('=', 1) for f in tail.split())
        if ok and res:
            if (kv['parser'], kv['client']) != (str(res[-1]['b']), str(res[-1]['c'])):
                ok = False
                ctx.disagree(c, {'where': 'pipe.tables-final', 'impl': f"{res[-1]['b']} {res[-1]['c']}",
                                 'model': f"{kv['parser']} {kv['client']}"})
            if int(kv['interim']) != interim(res):
                ok = False
                ctx.disagree(c, {'where': 'pipe.interim', 'impl': interim(res), 'model': kv['interim']})
        for bad in t.inconsistent():
            ok = False
            ctx.disagree(c, {'where': 'lexh-consistency', 'model': bad})
        if t.report_negative(ctx, c):
            ok = False
        ctx.count('pipe_requests', len(msgs))
        ctx.count('pipe_reads', min(len(res), 12))
        for m in msgs:
            ctx.count('pipe_method', m.split(b' ', 1)[0].decode('latin-1'))
            ctx.count('pipe_expect', int(b'xpect' in m))
        for x in res:
            ctx.count('pipe_out', x['kind'])
        ctx.case(c, nontrivial=True, validated=ok)


def run(ctx):
    ctx.trusted.append('pipelined streams: handlers answer synchronously (the response is written before the next read); '
                       'reads that straddle a request boundary are tied to the model, not judged (the statement excludes '
                       'pipelining); HEAD and Expect: 100-continue requests are part of the streams')
    cases = gen_cases(ctx)
    for i in range(0, len(cases), 150):
        eval_pipe(ctx, cases[i:i + 150])
        _c13().LEXTIE.flush(ctx)
        if ctx.time_up():
            return

"""
C03 - fire() from other threads: nothing lost or duplicated, loop always wakes.

The real `Manager.run()` runs in one managed thread, 1-3 managed firer threads call
`m.fire(ev(t, i))`; `vsched.Sched` decides at every source line of the anchored functions (and
at every lock / Event / select operation) which thread runs next.  Module globals are replaced
from outside by doubles that report each *effect* (lock acquire/release, read/write of
`_currently_handling`, `_time_left`, `event.handler`, queue counter/append/snapshot/pop,
Event.set/clear/wait, select/poll/epoll, ctrl-pipe write/read):

  correspondence (B): the effect stream is replayed through the Lean acceptor CV.Model.Wake
      (`cvdriver wake`): every effect must be the enabled next step of that thread in the model
      and produce the same abstract state (pending count, kind of `_currently_handling`, sign of
      the current generate_events' time_left, wake signal, lock holder).
  spec on impl (C): `WakeSpec.onceFifo` on (fired, dispatched) and `WakeSpec.notStuck` on the
      scheduler's end-of-run observation, both evaluated by the Lean driver.

A case is {'mode', 'plan', 'dev'}: waiter kind, events per firer, schedule deviations.

Directed family (both tiers, `directed_family`): a case additionally carries
'scn' = {'kind', 'occ', 'point', 'k'}.  The LOOP thread itself appends to the queue without the lock
(kind 'tick': tick() firing generate_events, `occ`-th time; kind 'handler': a handler running in the loop
thread fires an event of its own) and is parked before the `point`-th line event of that
`_EventQueue.append` call (lines of private helpers it calls included); the last firer thread then fires
`k` events, the loop thread completes its append, the firer fires the rest of its plan, everything is
dispatched.  For such a case the schedule is derived from 'scn' (a state-dependent chooser; robust against
line-number changes), 'dev' stays empty.  Oracle = the same `WakeSpec.onceFifo` on (fired, dispatched); cases of
kind 'tick' are also replayed through the acceptor, cases of kind 'handler' are outside the modelled
protocol (the model has no handler that fires) and are judged by the spec predicates only.

Timer scenarios: a case with 'timer': 1 registers a real `circuits.Timer` with a very long interval ('timer': 2 / 3:
two of them, see TIMER_SETUPS - the second one finds a positive time left and lowers it further or leaves it), so that
in every idle iteration the loop thread runs `event.reduce_time_left(T)` with T > 0 (handler without `resume`,
priority above every waiter's) BEFORE the waiter, and the waiter takes its positive-time-out branch
(`Event.wait(T)` / select / poll / epoll with time-out T).  Time-outs never expire in a run, so a wake-up
that only the time-out would deliver is reported as `stuck(...)`.  Effects: `hsetWnoResume`, `lAcq`, `tlwOther`,
`lRel` - transitions of CV.Model.Wake itself (program points tAcq/tChk/tRel; the acceptor is the model alone, the
theorems of CV/Props/C03.lean cover them), then the model's positive branch.  Histogram `timer_steps`: every effect
accepted while the model's loop thread is inside the Timer handler, by program point and thread.
Directed kind 'rtl' (always with the timer): the loop thread is parked before the `point`-th line event of
that `reduce_time_left(T > 0)` call (`occ`-th idle iteration; helpers it calls included) while the last firer
fires `k` events, then resumed; the firer fires the rest of its plan.  Park points at which the loop thread
holds the lock are kept (the firer then simply blocks on the lock: counted as not-reached).
"""
import collections
import heapq
import inspect
import os
import select as real_select
import sys
import threading
import types

import vsched as S
from framework import Infra

MODES = ('fallback', 'select', 'poll', 'epoll')
WAITER_FUNCS = {'_on_generate_events', '_generate_events'}
# case field 'timer': which Timers are registered (intervals in seconds, in registration order; none ever expires).
# 2 and 3 register two Timers, so that in every idle iteration the second `reduce_time_left(T)` finds a positive
# time left and either lowers it further (tlwOther from pos) or leaves it (lRel without a write, tl=pos).
TIMER_SETUPS = {1: (1.0e6,), 2: (1.0e6, 5.0e5), 3: (5.0e5, 1.0e6)}
TIMER_PCS = ('tAcq', 'tChk', 'tRel')   # CV.Wake.LPc: the loop thread is inside a Timer's generate_events handler

CTL = None   # the run in progress (doubles consult it)


def _sign(v):
    return 'neg' if v < 0 else ('zero' if v == 0 else 'pos')


def _has_resume(h):
    if h is None:
        return False
    return inspect.ismethod(getattr(getattr(h, '__self__', None), 'resume', None))


class Ctl:
    def __init__(self, mode, sch):
        self.mode = mode
        self.sched = sch
        self.m = None
        self.labels = []        # (thread, label, impl abstract state)
        self.fired = []
        self.dispatched = []
        self.ges = []
        self.cur_ge = None
        self.events = []
        self.pipes = {}         # read fd -> bytes in the pipe
        self.wfd = {}           # write fd -> read fd
        self.fds = []
        self.lock = None
        self.loop_in_tick = False
        self.finale = False
        self.cut = None
        self.end_obs = None
        self.expect_hread = {}
        self.hread_idx = {}
        self.overrun = False
        self.directed = None

    def me(self):
        return self.sched.me()

    def recording(self):
        return self.loop_in_tick and not self.finale

    def sig(self):
        if self.mode == 'fallback':
            return 1 if (self.events and self.events[-1].flag) else 0
        return sum(self.pipes.values())

    def abs_state(self):
        q = self.m._queue
        pend = collections.deque.__len__(q._queue) + len(q._priority_queue)
        h = self.m.__dict__.get('_ch')
        hk = 'none' if h is None else ('ge' if isinstance(h, TGe) else 'other')
        tl = _sign(self.cur_ge.__dict__['_tl']) if self.cur_ge is not None else 'neg'
        o = self.lock.owner if self.lock is not None else None
        lock = '-' if o is None else ('L' if o == 0 else f'F{o}')
        return f'pend={pend} hk={hk} tl={tl} sig={self.sig()} lock={lock}'

    def effect(self, me, label, hread=False):
        if me is None:
            return
        if not hread:
            self.expect_hread[me] = False       # any other effect of the thread ends its series of handler reads
            self.hread_idx.pop(me, None)
        if self.recording():
            self.labels.append((me, label, self.abs_state()))
            if hread:
                self.hread_idx[me] = len(self.labels) - 1

    def handler_read(self, me, label):
        """`reduce_time_left` reads `event.handler` up to three times on different lines (`is not None`, then twice
        to fetch `resume`) while the loop thread assigns `event.handler` without the lock: the effect is the LAST
        read of the series (the one whose `resume` is called); an earlier read of the same series, which only
        decided `is not None`, is withdrawn from the trace (reads do not change the abstract state)."""
        i = self.hread_idx.pop(me, None)
        if i is not None and i < len(self.labels) and self.cut is None:
            del self.labels[i]
            for t, j in list(self.hread_idx.items()):
                if j > i:
                    self.hread_idx[t] = j - 1
        self.effect(me, label, hread=True)


# ---------------------------------------------------------------------------------------
# doubles
# ---------------------------------------------------------------------------------------

class TLock:
    """scheduler-aware re-entrant lock (replaces circuits.core.manager.RLock)"""

    def __init__(self):
        self.owner = None
        self.depth = 0
        self._real = threading.RLock()
        if CTL is not None and CTL.lock is None:
            CTL.lock = self

    def acquire(self, blocking=True, timeout=-1):
        c = CTL
        me = c.me() if c else None
        if me is None:
            return self._real.acquire(blocking, timeout)
        if self.owner == me:
            self.depth += 1
            return True
        c.sched.block_until(lambda: self.owner is None, 'lock')
        if c.sched.dead:
            return True
        self.owner = me
        self.depth = 1
        if self is c.lock:
            c.effect(me, 'lAcq' if me == 0 else f'fAcq {me}')
        return True

    def release(self):
        c = CTL
        me = c.me() if c else None
        if me is None:
            return self._real.release()
        if self.owner != me:
            if c.sched.dead:
                return None
            raise RuntimeError('release of un-acquired lock')
        self.depth -= 1
        if self.depth == 0:
            self.owner = None
            if self is c.lock:
                c.effect(me, 'lRel' if me == 0 else f'fRel {me}')
        return None

    def __enter__(self):
        self.acquire()
        return self

    def __exit__(self, *a):
        self.release()


class TEvent:
    """scheduler-aware threading.Event (replaces circuits.core.helpers.Event)"""

    def __init__(self):
        self.flag = False
        if CTL is not None:
            CTL.events.append(self)

    def is_set(self):
        return self.flag

    def set(self):
        self.flag = True
        c = CTL
        me = c.me() if c else None
        if me is not None:
            c.effect(me, 'sigSetL' if me == 0 else f'fSig {me}')

    def clear(self):
        self.flag = False
        c = CTL
        me = c.me() if c else None
        if me is not None:
            c.effect(me, 'clr')

    def wait(self, timeout=None):
        c = CTL
        me = c.me() if c else None
        if me is None:
            return self.flag
        if timeout is not None and timeout == 0:
            c.effect(me, 'wait0')
            return self.flag
        c.sched.block_until(lambda: self.flag or c.finale, 'wait')
        if self.flag:
            c.effect(me, 'wake')
            return True
        if c.finale:
            # the run is over (the end observation was taken when every thread was blocked); report "set" so that a
            # waiter written as `while not wait(T): pass` leaves its loop as well as one that re-reads the time left
            return True
        c.effect(me, 'timeout')
        return False


def _caller_names():
    f1 = sys._getframe(2)
    f2 = f1.f_back
    return f1.f_code.co_name, (f2.f_code.co_name if f2 is not None else '')


def _within(names, depth=6):
    """is one of the functions `names` among the nearest `depth` callers of the instrumented attribute access?
    (the access itself may sit in a private helper extracted from that function: a refactoring that moves the
    very same read / write into a helper must not change the observed effect trace)"""
    f = sys._getframe(2)
    for _ in range(depth):
        if f is None:
            return False
        if f.f_code.co_name in names:
            return True
        if f.f_code.co_name in KNOWN_FUNCS:
            return False        # another function of the protocol, not a helper of the one asked for
        f = f.f_back
    return False


# names of the functions that make up the wake-up / dispatch protocol (see monitored_codes)
KNOWN_FUNCS = {'_fire', 'tick', '_flush', '_dispatcher', 'run', 'fireEvent', 'append', 'dispatchEvents', '__len__',
               'reduce_time_left', '_on_generate_events', 'resume', '_read_ctrl', '_generate_events', '_process',
               'time_left'}


def make_traced(real_ge, real_manager, real_eq):
    class generate_events(real_ge):
        def _get_tl(self):
            v = self.__dict__['_tl']
            c = CTL
            me = c.me() if c else None
            if me == 0:
                n1, n2 = _caller_names()
                if n1 == 'time_left' and n2 in WAITER_FUNCS:
                    c.effect(me, f'tlr {_sign(v)}')
            return v

        def _set_tl(self, v):
            first = '_tl' not in self.__dict__
            self.__dict__['_tl'] = v
            c = CTL
            if c is None:
                return
            if first:
                c.ges.append(self)
                self.__dict__['_seq'] = len(c.ges)
                return
            me = c.me()
            if me is None:
                return
            if v == 0:
                c.effect(me, 'tlwZero' if me == 0 else f'fTlwZero {me}')
                c.expect_hread[me] = True
            else:
                c.effect(me, 'tlwOther')

        _time_left = property(_get_tl, _set_tl)

        def _get_h(self):
            v = self.__dict__.get('_h')
            c = CTL
            me = c.me() if c else None
            if me is not None and c.expect_hread.get(me):
                if _within(('reduce_time_left',)):
                    b = 1 if _has_resume(v) else 0
                    c.handler_read(me, f'lHsetR {b}' if me == 0 else f'fHsetR {me} {b}')
            return v

        def _set_h(self, v):
            self.__dict__['_h'] = v
            c = CTL
            me = c.me() if c else None
            if me is not None and v is not None:
                c.effect(me, 'hsetW' if _has_resume(v) else 'hsetWnoResume')

        handler = property(_get_h, _set_h)

        def __getstate__(self):
            return dict(self.__dict__)

    class TManager(real_manager):
        def _get_ch(self):
            v = self.__dict__.get('_ch')
            c = CTL
            me = c.me() if c else None
            if me is not None and me != 0:
                if _within(('_fire',), 3):
                    hk = 'none' if v is None else ('ge' if isinstance(v, generate_events) else 'other')
                    c.effect(me, f'fHr {me} {hk}')
            return v

        def _set_ch(self, v):
            self.__dict__['_ch'] = v
            c = CTL
            me = c.me() if c else None
            if me == 0:
                c.effect(me, 'hwNone' if v is None else ('hwGe' if isinstance(v, generate_events) else 'hwOther'))

        _currently_handling = property(_get_ch, _set_ch)

    class TDeque(collections.deque):
        def append(self, x):
            collections.deque.append(self, x)
            c = CTL
            me = c.me() if c else None
            if me is None or self is not c.m._queue._queue:
                return
            ev = x[2][0]
            if me == 0:
                if isinstance(ev, generate_events):
                    c.cur_ge = ev
                    c.effect(me, f"lAppGe {ev.__dict__['_seq']} {_sign(ev.__dict__['_tl'])}")
                else:
                    c.effect(me, 'lAppOther')
            else:
                c.effect(me, f'fApp {me} {ev.args[1]}')

        def __len__(self):
            n = collections.deque.__len__(self)
            c = CTL
            me = c.me() if c else None
            if me == 0 and self is c.m._queue._queue and _within(('dispatchEvents',), 3):
                c.effect(me, f'snap {n}')
            return n

    class TQueue(real_eq):
        def __init__(self):
            super().__init__()
            self._queue = TDeque()

        def _get_c(self):
            return self.__dict__['_ctr']

        def _set_c(self, v):
            self.__dict__['_ctr'] = v
            c = CTL
            me = c.me() if c else None
            if me is not None and c.m is not None and self is c.m._queue:
                c.effect(me, 'lIncr' if me == 0 else f'fIncr {me}')

        _counter = property(_get_c, _set_c)

    return generate_events, TManager, TQueue


def t_heappop(h):
    x = heapq.heappop(h)
    c = CTL
    me = c.me() if c else None
    if me == 0:
        ev = x[2][0]
        if isinstance(ev, TGe):
            c.effect(me, f"pop 0 {ev.__dict__['_seq']}")
        elif ev.name == 'started':
            c.effect(me, 'pop 0 0')
        elif ev.name == 'ev':
            c.effect(me, f'pop {ev.args[0]} {ev.args[1]}')
        else:
            c.effect(me, f'popOther {ev.name}')
    return x


class FakeOS:
    def __getattr__(self, k):
        return getattr(os, k)

    def pipe(self):
        r, w = os.pipe()
        c = CTL
        if c is not None:
            c.pipes[r] = 0
            c.wfd[w] = r
            c.fds += [r, w]
        return r, w

    def write(self, fd, b):
        n = os.write(fd, b)
        c = CTL
        if c is not None and fd in c.wfd:
            c.pipes[c.wfd[fd]] += n
            me = c.me()
            if me is not None:
                c.effect(me, 'sigSetL' if me == 0 else f'fSig {me}')
        return n

    def read(self, fd, n):
        c = CTL
        if c is not None and fd in c.pipes:
            if c.pipes[fd] <= 0:
                raise BlockingIOError('ctrl pipe empty (double)')
            b = os.read(fd, n)
            c.pipes[fd] -= len(b)
            me = c.me()
            if me is not None:
                c.effect(me, 'pipeRd')
            return b
        return os.read(fd, n)


def _ready(fds):
    c = CTL
    return [fd for fd in fds if isinstance(fd, int) and c.pipes.get(fd, 0) > 0]


def _wait_ready(fds, nonblocking):
    """common part of select/poll/epoll doubles; returns the ready ctrl fds"""
    c = CTL
    me = c.me()
    if nonblocking:
        r = _ready(fds)
        c.effect(me, f'selRet {1 if r else 0}')
        return r
    c.sched.block_until(lambda: bool(_ready(fds)) or c.finale, 'select')
    r = _ready(fds)
    c.effect(me, 'selRet 1' if r else 'selTimeout 0')
    return r


class _FakePoll:
    def __init__(self, flag, missing):
        self.reg = {}
        self.flag = flag
        self.missing = missing

    def register(self, fd, mask=0):
        self.reg[fd if isinstance(fd, int) else fd.fileno()] = mask

    def unregister(self, fd):
        k = fd if isinstance(fd, int) else fd.fileno()
        if k not in self.reg:
            raise self.missing
        del self.reg[k]

    def modify(self, fd, mask):
        self.reg[fd] = mask

    def poll(self, timeout=None):
        c = CTL
        if c is None or c.me() is None:
            return []
        nb = timeout is not None and timeout == 0
        r = _wait_ready(list(self.reg), nb)
        return [(fd, self.flag) for fd in r]

    def close(self):
        pass


class FakeSelect:
    def __getattr__(self, k):
        return getattr(real_select, k)

    def select(self, r, w, x, timeout=None):
        c = CTL
        if c is None or c.me() is None:
            return real_select.select(r, w, x, 0)
        nb = timeout is not None and timeout == 0
        rr = _wait_ready(list(r), nb)
        return rr, [], []

    def poll(self):
        return _FakePoll(real_select.POLLIN, KeyError('not registered'))

    def epoll(self, *a):
        return _FakePoll(real_select.EPOLLIN, FileNotFoundError(2, 'No such file or directory'))


# ---------------------------------------------------------------------------------------
# patching
# ---------------------------------------------------------------------------------------

_PATCH = {}
TGe = None


class Patched:
    """module globals replaced from outside; restored on exit"""

    def __enter__(self):
        global TGe
        import circuits.core.events as E
        import circuits.core.helpers as H
        import circuits.core.manager as M
        import circuits.core.pollers as P
        self.mods = (M, H, P, E)
        self.saved = [(M, 'RLock', M.RLock), (M, 'generate_events', M.generate_events),
                      (M, '_EventQueue', M._EventQueue), (M, 'heappop', M.heappop), (M, 'atexit', M.atexit),
                      (H, 'Event', H.Event), (P, 'select', P.select), (P, 'os', P.os)]
        ge, tm, tq = make_traced(E.generate_events, M.Manager, M._EventQueue)
        TGe = ge
        self.TManager = tm
        M.RLock = TLock
        M.generate_events = ge
        M._EventQueue = tq
        M.heappop = t_heappop

        class _NoAtexit:
            @staticmethod
            def register(*a, **k):
                return None
        M.atexit = _NoAtexit
        H.Event = TEvent
        P.select = FakeSelect()
        P.os = FakeOS()
        self.codes = monitored_codes(M, H, P, E)
        self.tick_code = M.Manager.tick.__code__
        real_eq = self.saved[2][2]
        self.append_code = real_eq.append.__code__
        # directed family only: the private helpers `append` calls are pre-emption points too
        self.helper_codes = helper_codes(M, real_eq, self.append_code, self.codes)
        self.rtl_code = E.generate_events.reduce_time_left.__code__
        self.rtl_helper_codes = helper_codes(E, E.generate_events, self.rtl_code, self.codes + self.helper_codes)
        return self

    def __exit__(self, *a):
        for mod, name, val in self.saved:
            setattr(mod, name, val)


def monitored_codes(M, H, P, E):
    fs = [M.Manager._fire, M.Manager.tick, M.Manager._flush, M.Manager._dispatcher, M.Manager.run,
          M.Manager.fireEvent,
          M._EventQueue.append, M._EventQueue.dispatchEvents, M._EventQueue.__len__,
          E.generate_events.reduce_time_left,
          H.FallBackGenerator._on_generate_events, H.FallBackGenerator.resume,
          P.BasePoller._on_generate_events, P.BasePoller.resume, P.BasePoller._read_ctrl,
          P.Select._generate_events, P.Poll._generate_events, P.Poll._process,
          P.EPoll._generate_events, P.EPoll._process]
    res = []
    for f in fs:
        f = getattr(f, '__func__', f)
        res.append(f.__code__)
    return res


def helper_codes(M, cls, root, known, depth=3):
    """code objects of the private helpers the code `root` (a method of `cls`) calls: the names it uses that
    resolve to plain Python functions of the same class or of the same module, transitively"""
    seen = {id(c) for c in known}
    out = []
    todo = [root]
    for _ in range(depth):
        nxt = []
        for code in todo:
            for name in code.co_names:
                for f in (inspect.getattr_static(cls, name, None), M.__dict__.get(name)):
                    f = getattr(f, '__func__', f)
                    if isinstance(f, types.FunctionType) and f.__module__ == M.__name__ and id(f.__code__) not in seen:
                        seen.add(id(f.__code__))
                        out.append(f.__code__)
                        nxt.append(f.__code__)
        todo = nxt
    return out


# ---------------------------------------------------------------------------------------
# directed schedules: the loop thread parked inside its own (un-locked) queue append
# ---------------------------------------------------------------------------------------

class Directed:
    """state of one directed schedule; phases: 0 run by default until the loop thread reaches the park point,
    1 the firer F fires k events, 2 the loop thread completes its append, 3 F fires the rest, 4 default"""

    def __init__(self, scn, F):
        self.kind = scn['kind']
        self.occ = int(scn['occ'])
        self.point = scn.get('point')       # None: probe (default schedule, only records the park points)
        self.k = int(scn['k'])
        self.F = F
        self.phase = 0
        self.seen_ev = None
        self.count = 0
        self.idx = -1
        self.points = []
        self.broken = None

    def matches(self, arg):
        if self.kind == 'tick':
            return isinstance(arg, TGe)
        if self.kind == 'rtl':
            return isinstance(arg, (int, float)) and arg > 0
        return getattr(arg, 'name', None) == 'own'

    def on_loop_line(self, px, code, line):
        """called for every line event of the loop thread (before the scheduling point of that line)"""
        if self.kind == 'rtl':
            fr = _root_frame(px.rtl_code, px.rtl_helper_codes, code)
        else:
            fr = _root_frame(px.append_code, px.helper_codes, code)
        if fr is None or (self.phase == 2 and fr is not self.seen_ev):
            if self.phase == 2:
                self.phase = 3          # the loop thread's append / reduce_time_left call has returned
            return
        names = fr.f_code.co_varnames
        arg = fr.f_locals.get(names[1]) if len(names) > 1 else None     # the event / the new time left
        if not self.matches(arg):
            return
        if fr is not self.seen_ev:
            self.seen_ev = fr           # (the frame is kept alive, so `is` identifies the call)
            self.count += 1
        if self.count != self.occ:
            return
        self.idx += 1
        self.points.append(f'{code.co_name}+{line - code.co_firstlineno}')
        if self.phase == 0 and self.point is not None and self.idx == int(self.point):
            self.phase = 1

    def choose(self, c, step, default, enabled):
        if self.phase in (0, 4):
            return default
        F = self.F
        if self.phase == 1 and (sum(1 for t, _i in c.fired if t == F) > self.k or c.sched.th[F].state == 'done'):
            self.phase = 2              # F is at the first line of its (k+1)-th fire(), or has fired everything
        if self.phase == 3 and c.sched.th[F].state == 'done':
            self.phase = 4
            return default
        want = 0 if self.phase == 2 else F
        if want not in enabled:
            if self.broken is None:
                self.broken = f'phase {self.phase}: thread {want} not enabled ({enabled})'
            return default
        return want

    def summary(self):
        return {'reached': self.phase >= 3 and self.broken is None, 'phase': self.phase, 'broken': self.broken,
                'points': self.points}


def _root_frame(root, helpers, code):
    """the frame of the call of `root` (`_EventQueue.append` / `reduce_time_left`) the current line event (of
    `code`: root itself or one of its private helpers) belongs to, or None"""
    if code is not root and not any(code is h for h in helpers):
        return None
    f = sys._getframe(3)        # on_loop_line <- line_cb <- the monitored frame
    for _ in range(5):
        if f is None:
            return None
        if f.f_code is root:
            return f
        f = f.f_back
    return None


# ---------------------------------------------------------------------------------------
# one run
# ---------------------------------------------------------------------------------------

class RunResult:
    pass


def run_one(px, mode, plan, dev=None, chooser=None, max_steps=6000, scn=None, timer=False):
    """px: active Patched(); returns RunResult"""
    global CTL
    from circuits import BaseComponent, Event, handler
    import circuits.core.pollers as P

    directed = Directed(scn, len(plan)) if scn else None
    if directed is not None:
        def chooser(step, default, enabled):
            return directed.choose(c, step, default, enabled)
    sch = S.Sched(deviations={int(a): int(b) for a, b in (dev or [])}, chooser=chooser, max_steps=max_steps)
    c = Ctl(mode, sch)
    c.directed = directed
    CTL = c
    fires_own = directed is not None and directed.kind == 'handler'
    timer = int(timer or 0) or (1 if directed is not None and directed.kind == 'rtl' else 0)
    if timer not in TIMER_SETUPS and timer:
        raise Infra(f'unknown timer setup {timer}')

    class ev(Event):
        pass

    class own(Event):
        """the loop thread's own event (directed family, kind 'handler')"""

    class Rec(BaseComponent):
        channel = '*'

        @handler('ev')
        def _on_ev(self, t, i):
            c.dispatched.append((t, i))
            if fires_own and (t, i) == (1, 0):
                self.fire(own())

    m = px.TManager()
    c.m = m
    c.lock = m._lock
    Rec().register(m)
    if timer:
        from circuits.core.timers import Timer

        class tock(Event):
            """the timer's event (never fired: the interval is ~11 days)"""
        for interval in TIMER_SETUPS[timer]:
            Timer(interval, tock(), persist=True).register(m)
    if mode == 'select':
        P.Select().register(m)
    elif mode == 'poll':
        P.Poll().register(m)
    elif mode == 'epoll':
        P.EPoll().register(m)
    n = 0
    while len(m):
        m.flush()
        n += 1
        if n > 100:
            raise Infra('setup queue does not drain')

    def quiescent():
        if c.finale:
            return
        loop = sch.th[0]
        q = m._queue
        pend = collections.deque.__len__(q._queue) + len(q._priority_queue)
        c.end_obs = {
            'blocked': loop.state == 'blocked' and loop.what in ('wait', 'select'),
            'what': loop.what if loop.state == 'blocked' else loop.state,
            'pend': pend,
            'firers': [(t.state, t.what) for t in sch.th[1:]],
        }
        c.cut = len(c.labels)
        c.end_obs['dispatched_before'] = list(c.dispatched)
        c.finale = True
        m._running = False
        for g in c.ges[-2:]:
            g.__dict__['_tl'] = 0

    sch.on_quiescent = quiescent

    def line_cb(code, line):
        cc = CTL
        if cc is None or not cc.sched.active:
            return
        me = cc.sched.me()
        if me is None:
            return
        if me == 0 and code is px.tick_code:
            cc.loop_in_tick = True
        if cc.sched.overrun and not cc.finale:
            cc.overrun = True
            quiescent()
        if me == 0 and cc.directed is not None and not cc.finale:
            cc.directed.on_loop_line(px, code, line)
        cc.sched.yield_point()

    def loop_body():
        m.run()

    def firer_body(t, k):
        def body():
            for i in range(k):
                c.fired.append((t, i))
                m.fire(ev(t, i))
        return body

    err = None
    extra_codes = [] if directed is None else (px.rtl_helper_codes if directed.kind == 'rtl' else px.helper_codes)
    with S.LineHooks(px.codes + extra_codes, line_cb):
        sch.spawn(loop_body)
        for t, k in enumerate(plan, start=1):
            sch.spawn(firer_body(t, k), pred=lambda: c.loop_in_tick, what='start')
        try:
            sch.go(timeout=60.0)
        except S.SchedError as e:
            err = str(e)
    CTL = None
    for fd in c.fds:
        try:
            os.close(fd)
        except OSError:
            pass
    r = RunResult()
    r.mode, r.plan = mode, list(plan)
    r.labels = c.labels if c.cut is None else c.labels[:c.cut]
    r.fired, r.dispatched = c.fired, c.dispatched
    r.end_obs = c.end_obs
    r.dead = sch.dead
    r.err = err
    r.overrun = c.overrun
    r.applied = [list(x) for x in sch.applied]
    r.decisions = sch.decisions
    r.steps = sch.step
    r.switches = sch.switches
    r.thread_exc = [repr(t.exc) for t in sch.th if t.exc is not None]
    r.loop_finished = sch.th[0].state == 'done'
    r.directed = directed.summary() if directed is not None else None
    # kind 'handler' is outside the modelled protocol: judged by the spec predicates only
    r.accept = not fires_own
    r.timer = timer
    return r


# ---------------------------------------------------------------------------------------
# evaluation: Lean acceptor + spec predicates
# ---------------------------------------------------------------------------------------

def keys(l):
    return ' '.join(f'{t}:{i}' for t, i in l) if l else ''


def ops_of(r):
    ops = ['mode ' + ('fallback' if r.mode == 'fallback' else 'poller')]
    if r.accept:
        ops += [lab for _t, lab, _s in r.labels]
    ops.append('state')
    ops.append(f'spec-once {keys(r.fired)} | {keys(r.dispatched)}')
    eo = r.end_obs or {'blocked': False, 'pend': 0}
    ops.append(f"spec-stuck {1 if eo['blocked'] else 0} {eo['pend']} 0")
    return ops


def parse_state(s):
    return dict(kv.split('=', 1) for kv in s.split() if '=' in kv)


def classify_order(fired, dispatched):
    cf = collections.Counter(fired)
    cd = collections.Counter(dispatched)
    if any(cd[k] > cf.get(k, 0) for k in cd):
        return 'dup'
    if any(cd.get(k, 0) < cf[k] for k in cf):
        return 'lost'
    return 'fifo-violated'


def describe_directed(case, r):
    scn = case.get('scn')
    if not scn or scn.get('point') is None or not r.directed:
        return ''
    F = len(case['plan'])
    pts = r.directed['points']
    at = pts[scn['point']] if scn['point'] < len(pts) else '?'
    if scn['kind'] == 'rtl':
        return (f" [directed schedule{'' if r.directed['reached'] else ' (NOT reached: ' + str(r.directed['broken']) + ')'}"
                f": the loop thread, in the Timer's generate_events handler (idle iteration {scn['occ']}), is "
                f"pre-empted inside event.reduce_time_left(T > 0) before line event #{scn['point']} ({at}, "
                f"function+line offset); thread {F} fires {min(scn['k'], case['plan'][-1])} event(s); the loop thread "
                f"completes reduce_time_left and runs the waiter; thread {F} fires "
                f"{max(case['plan'][-1] - scn['k'], 0)} more]")
    who = ('tick() firing generate_events (%s. time)' % scn['occ'] if scn['kind'] == 'tick'
           else 'the handler of ev(1, 0) firing an event of its own')
    return (f" [directed schedule{'' if r.directed['reached'] else ' (NOT reached: ' + str(r.directed['broken']) + ')'}: "
            f"the loop thread, in {who}, is pre-empted inside its un-locked _EventQueue.append before line "
            f"event #{scn['point']} ({at}, function+line offset); thread {F} fires {scn['k']} events; the loop thread "
            f"completes its append; thread {F} fires {case['plan'][-1] - scn['k']} more; then everything is "
            f"dispatched]")


def judge(ctx, case, r, ans):
    """compare one run with the driver's answers; report disagreements / violations"""
    ok = True
    mode = r.mode
    if r.err or r.overrun:
        raise Infra(f'scheduler trouble in case {case}: {r.err or "step overrun"}')
    # --- B: replay-validate the effect stream
    if not ans[0].startswith('ok'):
        raise Infra('driver refused mode op: ' + ans[0])
    prev = None
    for i, (t, lab, st) in enumerate(r.labels if r.accept else []):
        a = ans[1 + i]
        if not a.startswith('ok '):
            ok = False
            ctx.disagree(case, {'where': 'wake.accept', 'index': i, 'thread': t, 'label': lab,
                                'impl': st, 'model': a,
                                'before': [x[1] for x in r.labels[max(0, i - 6):i]]})
            break
        ms = parse_state(a[3:])
        is_ = parse_state(st)
        if prev is not None and prev.get('lpc') in TIMER_PCS:
            kind = lab.split()[0]
            if t != 0:
                kind = 'firer:' + kind
            elif kind == 'tlwOther':
                kind += f"(from {prev.get('tl')})"
            elif kind == 'lRel' and prev.get('lpc') == 'tChk':
                kind += f"(no write, tl={prev.get('tl')})"
            ctx.count('timer_steps', f"{prev.get('lpc')}:{kind}")
        prev = ms
        if mode == 'fallback':
            ms['sig'] = str(min(int(ms['sig']), 1))
        diff = [k for k in ('pend', 'hk', 'tl', 'sig', 'lock') if ms.get(k) != is_.get(k)]
        if diff:
            ok = False
            ctx.disagree(case, {'where': 'wake.state', 'index': i, 'thread': t, 'label': lab,
                                'fields': diff, 'impl': st, 'model': a})
            break
    eo = r.end_obs
    if ok and eo is not None and r.accept:
        ms = parse_state(ans[1 + len(r.labels)])
        if (ms.get('blocked') == '1') != bool(eo['blocked']):
            ok = False
            ctx.disagree(case, {'where': 'wake.blocked', 'impl': eo, 'model': ans[1 + len(r.labels)]})
    # --- C: spec on the implementation's own behaviour
    a_once, a_stuck = ans[-2], ans[-1]
    if a_stuck != 'ok':
        ctx.violate(case, f"stuck({mode}-{eo['what']})",
                    f"loop thread blocked in its idle {eo['what']} with {eo['pend']} event(s) queued, wake signal "
                    f"unset and no other thread able to run (fired {r.fired}, dispatched so far "
                    f"{eo.get('dispatched_before')}; only the harness-forced time-out lets the run continue)"
                    + (' [a Timer is registered: the wait has the positive time-out the Timer asked for, the '
                       'event stays queued until that time-out expires]' if r.timer else '')
                    + describe_directed(case, r))
    elif r.dead:
        ctx.violate(case, f'deadlock({mode})', f'no thread can run and the run cannot end: loop {eo}, firers '
                    f"{eo and eo['firers']}")
    elif not r.loop_finished:
        ctx.violate(case, f'loop-died({mode})', f'loop thread did not finish: {r.thread_exc}')
    elif a_once != 'ok':
        ctx.violate(case, f'{classify_order(r.fired, r.dispatched)}({mode})',
                    f'fired {r.fired} but dispatched {r.dispatched}' + describe_directed(case, r))
    if r.thread_exc:
        ctx.violate(case, f'exception({mode})', f'a managed thread raised: {r.thread_exc}')
    return ok


class Batch:
    def __init__(self, ctx, px):
        self.ctx, self.px = ctx, px
        self.items = []

    def add(self, case, r, nontrivial=True):
        self.items.append((case, r, nontrivial))
        if len(self.items) >= 150:
            self.flush()

    def flush(self):
        if not self.items:
            return
        answers = self.ctx.driver.batch('wake', [ops_of(r) for _c, r, _n in self.items])
        for (case, r, nt), ans in zip(self.items, answers):
            ok = judge(self.ctx, case, r, ans)
            self.ctx.case(case, nontrivial=nt, validated=ok and r.accept)
            if not r.accept:
                self.ctx.count('judged_by_spec_only', r.mode)
            self.ctx.count('mode', r.mode)
            self.ctx.count('timer_registered', {0: 'no', 1: 'yes'}.get(r.timer, f'yes, setup {r.timer}: {len(TIMER_SETUPS.get(r.timer, ()))} timers'))
            self.ctx.count('plan', '+'.join(map(str, r.plan)))
            self.ctx.count('preemptions', len(r.applied))
            self.ctx.count('effects_per_run', (len(r.labels) // 50) * 50)
            for _t, lab, _s in (r.labels if r.accept else []):
                self.ctx.count('effect', lab.split(' ')[0])
            if r.accept:
                self.ctx.extra['effects_replayed'] = self.ctx.extra.get('effects_replayed', 0) + len(r.labels)
            self.ctx.extra['scheduling_points'] = self.ctx.extra.get('scheduling_points', 0) + r.steps
        self.items = []


def do_case(px, case):
    if case.get('scn'):
        return run_one(px, case['mode'], case['plan'], scn=case['scn'])     # the schedule is derived from 'scn'
    return run_one(px, case['mode'], case['plan'], case['dev'], timer=case.get('timer'))


DIRECTED_SCN = (('tick', 1), ('tick', 2), ('handler', 1), ('rtl', 1), ('rtl', 2))


def directed_family(ctx, px, batch):
    """the loop thread parked at every line of its own `_EventQueue.append` (kinds tick, handler) resp. of the
    Timer's `reduce_time_left(T > 0)` (kind rtl) in turn, while a firer fires k events; then the loop thread
    completes that call and the firer fires d more (see the module docstring).
    Runs completely in both tiers (not subject to the exploration deadline)."""
    groups = {}
    for mode in MODES:
        for kind, occ in DIRECTED_SCN:
            if kind == 'rtl':
                # the loop thread parked inside the Timer's reduce_time_left(T > 0) of the occ-th idle iteration
                ks, ds = ((1, 2), (0, 1)) if ctx.tier == 'quick' else ((1, 2, 3), (0, 1, 2))
            else:
                ks, ds = ((2, 3), (1, 2)) if ctx.tier == 'quick' else ((2, 3, 4), (1, 2, 3))
            # ('tick', 1), ('rtl', 1): the first tick / idle iteration, one firer.  Otherwise firer 1 fires the
            # single event that wakes the idle loop (and whose handler fires, kind 'handler'); the last firer
            # does the burst.
            lead = [] if (kind, occ) in (('tick', 1), ('rtl', 1)) else [1]
            g = f'{kind}{occ}/{mode}'
            probe = {'mode': mode, 'plan': lead + [ks[0] + ds[0]], 'dev': [],
                     'scn': {'kind': kind, 'occ': occ, 'point': None, 'k': ks[0]}}
            r = do_case(px, probe)
            batch.add(probe, r, nontrivial=False)
            points = r.directed['points']
            groups[g] = [len(points), 0, 0]
            for j, at in enumerate(points):
                for k in ks:
                    for d in ds:
                        case = {'mode': mode, 'plan': lead + [k + d], 'dev': [],
                                'scn': {'kind': kind, 'occ': occ, 'point': j, 'k': k}}
                        r = do_case(px, case)
                        batch.add(case, r)
                        groups[g][1] += 1
                        reached = r.directed['reached']
                        groups[g][2] += 1 if reached else 0
                        ctx.count('directed_schedules', g + ('/reached' if reached else '/not-reached'))
                        ctx.count('directed_park_point', f'{kind}:{at}')
                        ctx.count('directed_burst', f'k={k},d={d}')
    ctx.extra['directed_family'] = {g: {'park_points': v[0], 'schedules': v[1], 'reached': v[2]}
                                    for g, v in groups.items()}
    return groups


def counter_rmw_facts(px):
    """measured, informational: which byte-code instructions lie between a read and the following write of
    `_counter` inside `_EventQueue.append` (or a private helper it calls), and whether one of them is an
    instruction at which CPython (>= 3.10, with the GIL) may switch threads (calls, backward jumps, function
    entry)"""
    import dis
    res = []
    for code in [px.append_code] + list(px.helper_codes):
        ins = [i for i in dis.get_instructions(code) if i.opname != 'CACHE']
        start = None
        for n, i in enumerate(ins):
            if i.opname.startswith('LOAD_ATTR') and i.argval == '_counter' and start is None:
                start = n
            elif i.opname.startswith('STORE_ATTR') and i.argval == '_counter' and start is not None:
                between = [x.opname for x in ins[start + 1:n]]
                sw = [o for o in between
                      if o.startswith(('CALL', 'JUMP_BACKWARD', 'RESUME', 'SEND', 'YIELD', 'FOR_ITER'))]
                lines = sorted({x.positions.lineno for x in ins[start:n + 1] if x.positions and x.positions.lineno})
                res.append({'function': code.co_name, 'between': between, 'switch_points': sw,
                            'source_lines': len(lines)})
                start = None
    return res


def children(r, after=-1):
    """all one-step deviations of run r at decisions later than `after`"""
    out = []
    for step, default, enabled in r.decisions:
        if step <= after:
            continue
        for t in enabled:
            if t != default:
                out.append((step, t))
    return out


def explore(ctx, px, batch, mode, plan, level2, level3, deadline_hit, timer=False):
    tm = {'timer': int(timer)} if timer else {}
    tag = f"{mode}{('+timer' + (str(int(timer)) if int(timer) > 1 else '')) if timer else ''}/{'+'.join(map(str, plan))}"
    base_case = {'mode': mode, 'plan': plan, 'dev': [], **tm}
    r0 = do_case(px, base_case)
    batch.add(base_case, r0, nontrivial=False)
    lvl1 = []
    for (s, t) in children(r0):
        if deadline_hit():
            return
        case = {'mode': mode, 'plan': plan, 'dev': [[s, t]], **tm}
        r = do_case(px, case)
        case['dev'] = r.applied
        batch.add(case, r)
        lvl1.append(r)
    ctx.count('level1_exhaustive', tag, len(lvl1))
    # two pre-emptions: children of the level-1 runs (all of them when level2 is None)
    pool = []
    for r in lvl1:
        if not r.applied:
            continue
        last = r.applied[-1][0]
        for (s, t) in children(r, after=last):
            pool.append((r.applied, s, t))
    full = level2 is None or level2 >= len(pool)
    if not full:
        pool = ctx.rng.sample(pool, level2)
    lvl2 = []
    for applied, s, t in pool:
        if deadline_hit():
            return
        case = {'mode': mode, 'plan': plan, 'dev': applied + [[s, t]], **tm}
        r = do_case(px, case)
        case['dev'] = r.applied
        batch.add(case, r)
        lvl2.append(r)
    ctx.count('level2_' + ('exhaustive' if full else 'sampled'), tag, len(lvl2))
    pool3 = []
    for r in lvl2:
        if len(r.applied) < 2:
            continue
        for (s, t) in children(r, after=r.applied[-1][0]):
            pool3.append((r.applied, s, t))
    if level3 and pool3:
        for applied, s, t in ctx.rng.sample(pool3, min(level3, len(pool3))):
            if deadline_hit():
                return
            case = {'mode': mode, 'plan': plan, 'dev': applied + [[s, t]], **tm}
            r = do_case(px, case)
            case['dev'] = r.applied
            batch.add(case, r)


def random_runs(ctx, px, batch, n, modes, deadline_hit):
    rng = ctx.rng
    for _ in range(n):
        if deadline_hit():
            return
        mode = rng.choice(modes)
        plan = rng.choice([[1], [2], [1, 1], [2, 1], [2, 2], [1, 1, 1], [3], [2, 1, 1]])
        p = rng.choice([0.02, 0.05, 0.1, 0.3])

        def chooser(step, default, enabled, p=p):
            if len(enabled) > 1 and rng.random() < p:
                return rng.choice(enabled)
            return default
        timer = rng.choice((1, 1, 2, 3)) if rng.random() < 0.3 else 0
        r = run_one(px, mode, plan, chooser=chooser, timer=timer)
        case = {'mode': mode, 'plan': plan, 'dev': r.applied, **({'timer': timer} if timer else {})}
        batch.add(case, r)


def check_params(ctx):
    """handler priorities the model's shape relies on: poller before fallback"""
    from circuits.core.helpers import FallBackGenerator
    from circuits.core.pollers import BasePoller
    fp = FallBackGenerator._on_generate_events.priority
    pp = BasePoller._on_generate_events.priority
    ctx.param('poller-handler-runs-before-fallback', pp > fp, f'poller priority {pp}, fallback priority {fp}')


def run(ctx):
    import time
    ctx.rule = ('a case is (waiter kind, events per firer, schedule deviations) or, for the directed family, '
                '(waiter kind, events per firer, directed-schedule descriptor scn: loop thread parked at a given '
                'line of its own queue append while a firer fires k events); distinct = distinct case; '
                'non-trivial = at least one pre-emption')
    ctx.trusted += [
        'atomicity granularity = one source line of the monitored functions (sys.monitoring LINE) plus each '
        'operation of the doubles; CPython executes deque.append/popleft/len, heappush/heappop and attribute '
        'stores atomically',
        'in particular `self._counter += 1` in _EventQueue.append (one source line, executed by the loop thread '
        'WITHOUT the lock) is atomic for the scheduler although it is a read-modify-write: a switch between its '
        'LOAD_ATTR and STORE_ATTR would let the loop thread write a stale counter and break the per-thread order. '
        'CPython >= 3.10 with the GIL switches threads only at calls, backward jumps and function entry, none of '
        'which lies inside that statement (measured: extra.counter_rmw); CPython 3.8/3.9 (declared supported), '
        'PyPy and free-threaded builds can switch inside it - schedules of that granularity are outside this '
        'check (it runs on the interpreter of the sandbox, at source-line granularity)',
        'doubles for RLock, threading.Event, select/poll/epoll and the ctrl pipe behave like the real ones '
        '(level-triggered readiness, Event.set wakes every waiter)',
        'effect reporting by the traced subclasses (properties on generate_events._time_left/.handler, '
        'Manager._currently_handling, _EventQueue._counter, deque subclass, heappop wrapper)',
    ]
    ctx.assumptions += [
        'all events have priority 0; no tasks; the only timer is one circuits.Timer with a very long interval '
        '(cases with timer=1 and the directed kind rtl): the loop thread lowers time_left to a positive value '
        'before the waiter, which exercises the model\'s positive-time-out branch (waitPos / pSel with a positive '
        'time-out); the Timer handler itself (hsetWnoResume, lAcq, tlwOther, lRel) is part of CV.Model.Wake '
        '(program points tAcq/tChk/tRel) and of the theorems; a Timer that has expired (reduce_time_left(0) after '
        'firing its event from the loop thread) is not exercised',
        'time-outs of the idle wait never expire during a run (that is the property); the run is ended by the '
        'harness once every thread is blocked or finished',
    ]
    check_params(ctx)
    t0 = time.time()
    budget = (32 if ctx.tier == 'quick' else 420) * (1.5 if ctx.searching else 1)

    def deadline_hit():
        return time.time() - t0 > budget or ctx.time_up()

    with Patched() as px:
        batch = Batch(ctx, px)
        for case in ctx.corpus():
            batch.add(case, do_case(px, case))
        ctx.extra['counter_rmw'] = counter_rmw_facts(px)
        td = time.time()
        groups = directed_family(ctx, px, batch)
        ctx.extra['directed_wall_s'] = round(time.time() - td, 1)
        t0 += time.time() - td      # the exploration budget below is not shortened by the directed family
        if ctx.tier == 'quick' and not ctx.searching:
            explore(ctx, px, batch, 'fallback', [1], 500, 60, deadline_hit)
            explore(ctx, px, batch, 'select', [1], 400, 60, deadline_hit)
            explore(ctx, px, batch, 'poll', [1], 60, 0, deadline_hit)
            explore(ctx, px, batch, 'epoll', [1], 60, 0, deadline_hit)
            explore(ctx, px, batch, 'fallback', [1, 1], 150, 30, deadline_hit)
            for mode in MODES:
                explore(ctx, px, batch, mode, [1], 40, 0, deadline_hit, timer=True)
            for mode, setup in (('fallback', 2), ('select', 3), ('poll', 2), ('epoll', 3)):
                explore(ctx, px, batch, mode, [1], 10, 0, deadline_hit, timer=setup)
            random_runs(ctx, px, batch, 250, MODES, deadline_hit)
        else:
            for mode in MODES:
                explore(ctx, px, batch, mode, [1], None, 600, deadline_hit)
            for mode in MODES:
                explore(ctx, px, batch, mode, [1], 1500, 200, deadline_hit, timer=True)
            for mode in MODES:
                explore(ctx, px, batch, mode, [1], 400, 50, deadline_hit, timer=2)
                explore(ctx, px, batch, mode, [1], 400, 50, deadline_hit, timer=3)
            random_runs(ctx, px, batch, 4000, MODES, deadline_hit)
            for mode in MODES:
                explore(ctx, px, batch, mode, [1, 1], 1000, 300, deadline_hit)
                explore(ctx, px, batch, mode, [2], 600, 200, deadline_hit)
            random_runs(ctx, px, batch, 20000, MODES, deadline_hit)
        batch.flush()
    vacuous = [g for g, v in groups.items() if v[0] == 0 or v[2] == 0]
    if vacuous and not ctx.violations:
        raise Infra(f'directed family never reached the loop thread\'s own queue append for {vacuous}')
    ctx.extra['granularity'] = 'source line (sys.monitoring LINE) + double operations'
    ctx.extra['explore_wall_s'] = round(time.time() - t0, 1)


def search(ctx):
    run(ctx)


def replay(ctx, case):
    with Patched() as px:
        r = do_case(px, case)
        ans = ctx.driver.batch('wake', [ops_of(r)])[0]
        judge(ctx, case, r, ans)
        print(f"replay: mode={case['mode']} plan={case['plan']} dev={case['dev']} applied={r.applied} "
              f"fired={r.fired} dispatched={r.dispatched} end={r.end_obs}"
              + (f" scn={case['scn']} directed={r.directed}" if case.get('scn') else ''))

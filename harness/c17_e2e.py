"""
C17, endpoint part - the codec *as installed by* `WebSocketsDispatcher` (server) and `WebSocketClient`
(client), driven in-process through the real components, no network.

Server rig : BaseComponent "fake server" (host/port/secure) + real `circuits.web.http.HTTP` child + real
             `WebSocketsDispatcher('/ws')` + an application component on the ws channel that records
             `read(sock, message)` / `close` / `connect` / `disconnect`; raw `read(sock, data)` /
             `disconnect(sock)` fired on the web channel; `write(sock, data)` / `close(sock)` on the web
             channel captured.  Several sockets (identity tokens subclassing socket.socket) at once.
Client rig : real `WebSocketClient`; its module global `TCPClient` is substituted by a transport double that
             records `connect` / `write` / `close`; the scripted peer's bytes (101 head + frames) are fired as
             `read(data)` on the client channel.
Schedules  : after a raw read the queue is flushed `gap` times (1, 2, 3) or drained before the next read of
             the connection arrives (one `read` per poll round is what the real transports produce); local
             write/close events happen on a drained queue.  Server side: drained after the read that
             completes the upgrade request (RFC 6455 4.1: the client waits for the 101).

A case = connections x (handshake head, peer frames, cuts over head+frames, local ops, disconnect) x order
of the connections' steps x gaps.  Per connection the reads between two local ops form a *group* whose
observations (messages delivered for the socket, frames written to it, close events) are compared with the
Lean model: `wse hs-split` (which bytes are the head, which the codec's initial data, CV.WSE.hsFeed /
initialData) + the `ws` machine fed the initial data and the later reads (CV.WS).  C17 is judged on the
implementation's observations by the same Lean spec ops as the codec-level run (`spec-read`, `spec-write`).
Server connections whose peer glues frame bytes behind the upgrade request are not judged (that peer is not a
conforming peer, RFC 6455 4.1; the dispatcher leaves those bytes in request.body - modelled, compared).
"""
import base64
import hashlib

import c17
from framework import cuts_to_segments, hx, unhx

DRAIN = 99
GUID = b'258EAFA5-E914-47DA-95CA-C5AB0DC85B11'
WS_FILES = ('protocols/websocket.py', 'websockets/dispatcher.py', 'websockets/client.py')


# ---------------------------------------------------------------------------------------
# handshake heads
# ---------------------------------------------------------------------------------------

def accept_of(key_b64):
    return base64.b64encode(hashlib.sha1(key_b64 + GUID).digest())


def upgrade_request(rng, path='/ws'):
    key = base64.b64encode(bytes(rng.randrange(256) for _ in range(16)))
    lines = [b'Host: example.org:8000', b'Upgrade: ' + rng.choice([b'websocket', b'WebSocket']),
             b'Connection: ' + rng.choice([b'Upgrade', b'keep-alive, Upgrade']),
             b'Sec-WebSocket-Key: ' + key, b'Sec-WebSocket-Version: 13']
    if rng.random() < 0.4:
        lines.append(b'Origin: http://example.org')
    if rng.random() < 0.3:
        lines.append(b'X-Pad: ' + b'p' * rng.choice([1, 7, 60]))
    rng.shuffle(lines)
    tail = rng.choice(['', '/chat', '?x=1'])
    return b'GET ' + path.encode() + tail.encode() + b' HTTP/1.1\r\n' + b'\r\n'.join(lines) + b'\r\n\r\n'


def upgrade_response(rng):
    lines = [b'Upgrade: websocket', b'Connection: Upgrade', b'Sec-WebSocket-Accept: ' + base64.b64encode(bytes(20))]
    if rng.random() < 0.4:
        lines.append(b'Server: scripted-peer/1.0')
    if rng.random() < 0.3:
        lines.append(b'X-Pad: ' + b'p' * rng.choice([1, 7, 60]))
    rng.shuffle(lines)
    return b'HTTP/1.1 101 Switching Protocols\r\n' + b'\r\n'.join(lines) + b'\r\n\r\n'


def request_key(hs):
    for ln in hs.split(b'\r\n'):
        if ln.lower().startswith(b'sec-websocket-key:'):
            return ln.split(b':', 1)[1].strip()
    return b''


# ---------------------------------------------------------------------------------------
# a connection's steps
# ---------------------------------------------------------------------------------------

def conn_plan(conn, side):
    """-> dict: hs, stream, segs, k (reads up to the one completing the head), glued, steps
    steps: ['h', bytes, gap] / ['r', bytes, gap] / ['w', kind, bytes] / ['c'] / ['d']"""
    hs = unhx(conn['hs'])
    stream = b''.join(c17.frame_bytes(f) for f in conn['frames']) + unhx(conn.get('junk', '-'))
    total = hs + stream
    segs = cuts_to_segments(total, conn['cuts'])
    k, acc = 0, 0
    for s in segs:
        k += 1
        acc += len(s)
        if acc >= len(hs):
            break
    glued = acc > len(hs)
    gaps = conn.get('gaps') or [DRAIN]
    later = segs[k:]
    ops = sorted(conn.get('ops', []), key=lambda o: o[0])
    steps = []
    for i, s in enumerate(segs[:k]):
        g = gaps[i % len(gaps)]
        if side == 'server' and i == k - 1:
            g = DRAIN                       # the client waits for the 101
        steps.append(['h', s, g])
    for i in range(len(later) + 1):
        for o in ops:
            if min(o[0], len(later)) == i:
                steps.append(['w', o[2], unhx(o[3])] if o[1] == 'w' else ['c'])
        if i < len(later):
            steps.append(['r', later[i], gaps[(k + i) % len(gaps)]])
    if conn.get('disc'):
        steps.append(['d'])
    return {'hs': hs, 'stream': stream, 'segs': segs, 'k': k, 'glued': glued, 'steps': steps,
            'left': total[len(hs):acc]}


def hs_class(plan):
    cut = plan['k'] > 1
    if plan['glued']:
        return 'handshake-cut+glued' if cut else 'glued-behind-handshake'
    return 'handshake-cut' if cut else 'handshake-alone'


def merged_steps(plan):
    """the connection's steps with runs of reads merged into groups: ['r', None] / ['w', kind, bytes] / ['c'] / ['d']
    + for every merged step the indices of the plan steps it stands for"""
    out, idx = [], []
    for i, st in enumerate(plan['steps']):
        if st[0] in ('h', 'r'):
            if out and out[-1][0] == 'r':
                idx[-1].append(i)
            else:
                out.append(['r', None])
                idx.append([i])
        else:
            out.append(list(st))
            idx.append([i])
    return out, idx


# ---------------------------------------------------------------------------------------
# implementation runners
# ---------------------------------------------------------------------------------------

def _exc_name(args):
    etype, _evalue, tb = args[:3]
    text = ''.join(tb) if isinstance(tb, (list, tuple)) else str(tb)
    name = etype.__name__ if isinstance(etype, type) else str(etype)
    return name, any(f in text for f in WS_FILES)


class _Log:
    """per-connection event tokens with group boundaries"""

    def __init__(self, n):
        self.ev = [[] for _ in range(n)]
        self.mark = [0] * n
        self.glob = []          # global order of delivered messages: (conn, token)

    def add(self, i, tok):
        if i is not None and 0 <= i < len(self.ev):
            self.ev[i].append(tok)
            if tok[0] == 'M':
                self.glob.append((i, tok[1]))

    def cut(self, i):
        res = self.ev[i][self.mark[i]:]
        self.mark[i] = len(self.ev[i])
        return res


def _obs(tokens, local_close, keys):
    o = {'msgs': [], 'writes': [], 'c': -local_close, 'x': 0, 'errs': [], 'keys': keys, 'http': [], 'other': []}
    for t in tokens:
        if t[0] == 'M':
            o['msgs'].append(t[1])
        elif t[0] == 'W':
            (o['http'] if t[1].startswith(b'HTTP/') else o['writes']).append(t[1] if t[1].startswith(b'HTTP/') else 'w:' + hx(t[1]))
        elif t[0] == 'C':
            o['c'] += 1
        elif t[0] == 'X':
            o['x'] += 1
        elif t[0] == 'E':
            o['errs'].append(t[1])
        else:
            o['other'].append(t[0])
    return o


def _msg_tok(v):
    if isinstance(v, str):
        return 'mt:' + hx(v.encode('utf-8', 'surrogatepass'))
    return 'mb:' + hx(bytes(v))


def _flush(m, gap):
    from httputil import drain
    if gap >= DRAIN:
        drain(m)
    else:
        for _ in range(gap):
            if len(m):
                m.flush()


def run_server(case, plans):
    import circuits.protocols.websocket as wsmod
    import circuits.web.http as webhttp
    import circuits.web.websockets.dispatcher as dmod
    from circuits import BaseComponent, handler
    from circuits.net.events import close, disconnect, read, write
    from httputil import SockToken, drain

    n = len(plans)
    log = _Log(n)
    socks = [SockToken(i + 1) for i in range(n)]
    index = {id(s): i for i, s in enumerate(socks)}
    created = []

    def ix(sock):
        return index.get(id(sock))

    class RecCodec(wsmod.WebSocketCodec):
        def __init__(self, sock=None, data=bytearray(), *a, **k):
            created.append((ix(sock), bytes(data)))
            super().__init__(sock, data, *a, **k)

    class Rig(BaseComponent):
        channel = 'web'
        host = '127.0.0.1'
        port = 8000
        secure = False
        display_banner = False

        @handler('write', priority=10)
        def _w(self, event, sock, data):
            log.add(ix(sock), ('W', bytes(data)))
            event.stop()

        @handler('close', priority=10)
        def _c(self, event, sock=None):
            log.add(ix(sock), ('X',))
            event.stop()

        @handler('exception', channel='*', priority=10)
        def _e(self, *args, **kw):
            name, ours = _exc_name(args)
            fe = kw.get('fevent')
            who = next((ix(a) for a in getattr(fe, 'args', ()) if ix(a) is not None), None)
            for i in ([who] if who is not None else range(n)):
                log.add(i, ('E', name) if ours else ('e', name))

    class App(BaseComponent):
        channel = 'wsserver'

        @handler('read')
        def _r(self, sock, msg):
            log.add(ix(sock), ('M', _msg_tok(msg)))

        @handler('close')
        def _cl(self, sock=None):
            log.add(ix(sock), ('C',))

        @handler('connect')
        def _cn(self, sock, *a):
            log.add(ix(sock), ('connect',))

        @handler('disconnect')
        def _dc(self, sock):
            log.add(ix(sock), ('disconnect',))

    saved = dmod.WebSocketCodec
    dmod.WebSocketCodec = RecCodec
    try:
        rig = Rig()
        webhttp.HTTP(rig).register(rig)
        disp = dmod.WebSocketsDispatcher('/ws').register(rig)
        App().register(rig)
        drain(rig)
        pos = [0] * n
        obs = [[] for _ in range(n)]       # per connection: one observation per merged step
        ingroup = [False] * n
        tables = {}

        def close_group(i):
            if ingroup[i]:
                obs[i].append(_obs(log.cut(i), 0, []))
                ingroup[i] = False

        for i in case['order']:
            if pos[i] >= len(plans[i]['steps']):
                continue
            st = plans[i]['steps'][pos[i]]
            pos[i] += 1
            if st[0] in ('h', 'r'):
                ingroup[i] = True
                rig.fire(read(socks[i], st[1]), 'web')
                _flush(rig, st[2])
                continue
            drain(rig)
            close_group(i)
            if st[0] == 'w':
                rig.fire(write(socks[i], st[2].decode('utf-8') if st[1] == 't' else st[2]), 'wsserver')
            elif st[0] == 'c':
                rig.fire(close(socks[i]), 'wsserver')
            else:
                rig.fire(disconnect(socks[i]), 'web')
            drain(rig)
            o = _obs(log.cut(i), 1 if st[0] == 'c' else 0, [])
            if st[0] == 'd':
                # nothing of the connection is left, and nothing is delivered / written for it any more
                rig.fire(write(socks[i], b'late'), 'wsserver')
                drain(rig)
                late = log.cut(i)
                o['late'] = [t[0] for t in late]
                tables[i] = sorted(
                    ([' _codecs'] if socks[i] in disp._codecs else []) + ([' _requests'] if socks[i] in disp._requests else [])
                    + [' codec-component' for c in disp.components if getattr(c, '_sock', None) is socks[i]])
            obs[i].append(o)
        drain(rig)
        for i in range(n):
            close_group(i)
        live = [i for i in range(n) if socks[i] in disp._codecs]
        return {'obs': obs, 'created': created, 'tables': tables, 'glob': log.glob, 'live': live}
    finally:
        dmod.WebSocketCodec = saved


def run_client(case, plans):
    import circuits.protocols.websocket as wsmod
    import circuits.web.websockets.client as cmod
    from circuits import BaseComponent, Manager, handler
    from circuits.net.events import close, connected, read, ready, write
    from httputil import drain

    plan = plans[0]
    log = _Log(1)
    created = []
    keys = [unhx(k) for k in case.get('keys', [])]
    fake = c17._FakeOs(wsmod.os, keys)

    class RecCodec(wsmod.WebSocketCodec):
        def __init__(self, sock=None, data=bytearray(), *a, **k):
            created.append((0, bytes(data)))
            super().__init__(sock, data, *a, **k)

    class Transport(BaseComponent):
        def __init__(self, channel='wsclient'):
            super().__init__(channel=channel)
            self.connected = True

        @handler('connect')
        def _cn(self, *a, **k):
            log.add(0, ('tconnect',))

        @handler('write')
        def _w(self, data):
            log.add(0, ('W', bytes(data)))

        @handler('close')
        def _c(self, *a):
            log.add(0, ('X',))

    class App(BaseComponent):
        channel = 'ws'

        @handler('read')
        def _r(self, msg):
            log.add(0, ('M', _msg_tok(msg)))

        @handler('close')
        def _cl(self, *a):
            log.add(0, ('C',))

        @handler('exception', channel='*', priority=10)
        def _e(self, *args, **kw):
            name, ours = _exc_name(args)
            log.add(0, ('E', name) if ours else ('e', name))

    saved = (cmod.TCPClient, cmod.WebSocketCodec, wsmod.os)
    cmod.TCPClient = Transport
    cmod.WebSocketCodec = RecCodec
    wsmod.os = fake
    try:
        m = Manager()
        cl = cmod.WebSocketClient('ws://example.org:8000/ws').register(m)
        App().register(m)
        drain(m)
        m.fire(ready(cl), 'wsclient')
        drain(m)
        m.fire(connected('example.org', 8000), 'wsclient')
        drain(m)
        pre = log.cut(0)            # connect + the upgrade request written
        request = b''.join(t[1] for t in pre if t[0] == 'W')
        obs = []
        ingroup = False
        kn = 0
        for st in plan['steps']:
            if st[0] in ('h', 'r'):
                ingroup = True
                m.fire(read(st[1]), 'wsclient')
                _flush(m, st[2])
                continue
            drain(m)
            if ingroup:
                obs.append(_obs(log.cut(0), 0, [hx(k) for k in fake.drawn[kn:]]))
                kn = len(fake.drawn)
                ingroup = False
            if st[0] == 'w':
                m.fire(write(st[2].decode('utf-8') if st[1] == 't' else st[2]), 'ws')
            elif st[0] == 'c':
                m.fire(close(), 'ws')
            else:
                continue
            drain(m)
            obs.append(_obs(log.cut(0), 1 if st[0] == 'c' else 0, [hx(k) for k in fake.drawn[kn:]]))
            kn = len(fake.drawn)
        drain(m)
        if ingroup:
            obs.append(_obs(log.cut(0), 0, [hx(k) for k in fake.drawn[kn:]]))
        return {'obs': [obs], 'created': created, 'tables': {}, 'glob': log.glob, 'live': [], 'request': request}
    finally:
        cmod.TCPClient, cmod.WebSocketCodec, wsmod.os = saved


# ---------------------------------------------------------------------------------------
# model side
# ---------------------------------------------------------------------------------------

def parse_answer(a):
    parts = a.split(' | ')
    if len(parts) != 3:
        return None
    cx = dict(p.split('=') for p in parts[2].split())
    return {'msgs': parts[0].split(), 'writes': parts[1].split(), 'c': int(cx.get('c', 0)), 'x': int(cx.get('x', 0))}


def merge(answers):
    res = {'msgs': [], 'writes': [], 'c': 0, 'x': 0}
    for a in answers:
        p = parse_answer(a)
        if p is None:
            return None
        res['msgs'] += p['msgs']
        res['writes'] += p['writes']
        res['c'] += p['c']
        res['x'] += p['x']
    return res


def show(o):
    return f"{' '.join(o['msgs'])} | {' '.join(o['writes'])} | c={o['c']} x={o['x']}"


# ---------------------------------------------------------------------------------------
# evaluation
# ---------------------------------------------------------------------------------------

def classify(case, ci, plan, what, got_all, want_all):
    side = case['side']
    hc = hs_class(plan)
    if what == 'messages':
        got, want = got_all[ci], want_all[ci]
        if sorted(t for g in got_all for t in g) == sorted(t for w in want_all for t in w) and len(got_all) > 1:
            what = 'cross-connection'
        elif len(got) < len(want) and _subseq(got, want):
            what = 'lost-message'
        elif len(got) > len(want) and _subseq(want, got):
            closed = any(f[1] == 8 for f in case['conns'][ci]['frames'])
            what = 'delivered-after-close' if closed and got[:len(want)] == want else 'duplicated-message'
        elif len(got) == len(want) and [t[3:] for t in got] == [t[3:] for t in want]:
            what = 'type-mismatch'
        else:
            what = 'payload-mismatch'
    return f'e2e-{what}({side},{hc})'


def _subseq(a, b):
    it = iter(b)
    return all(x in it for x in a)


def evaluate(ctx, cases, record=True):
    results = []
    runs = []
    wse_ops, ws_ops, ws_meta = [], [], []
    for case in cases:
        side = case['side']
        plans = [conn_plan(c, side) for c in case['conns']]
        try:
            impl = run_server(case, plans) if side == 'server' else run_client(case, plans)
            drive_err = None
        except Exception as e:      # harness-level failure of the drive itself
            impl, drive_err = None, f'{type(e).__name__}: {e}'
        runs.append((plans, impl, drive_err))
        # handshake split + the dispatcher's table, one wse batch case per e2e case
        ops = [f"hs-split {'c' if side == 'client' else 's'} " + ' '.join(hx(s) for s in p['segs']) for p in plans]
        if side == 'server':
            pos = [0] * len(plans)
            for i in case['order']:
                if pos[i] >= len(plans[i]['steps']):
                    continue
                st = plans[i]['steps'][pos[i]]
                pos[i] += 1
                if st[0] == 'h' and pos[i] == plans[i]['k']:
                    ops.append(f'up {i}')
                elif st[0] == 'r':
                    ops.append(f'rd {i} {hx(st[1])}')
                elif st[0] == 'd':
                    ops.append(f'dc {i}')
            ops += [f'tab {i}' for i in range(len(plans))]
        wse_ops.append(ops)
    wse_ans = ctx.driver.batch('wse', wse_ops)

    for case, (plans, impl, drive_err), wans in zip(cases, runs, wse_ans):
        side = case['side']
        for ci, plan in enumerate(plans):
            a = wans[ci].split()
            initial = unhx(a[4]) if a and a[0] == 'upgraded' and len(a) == 5 else None
            msteps, midx = merged_steps(plan)
            ops = [f'mode {side}']
            if case.get('keys') and side == 'client':
                ops.append('keys ' + ''.join(case['keys']))
            head = len(ops)
            counts = []
            for st, ids in zip(msteps, midx):
                start = len(ops)
                if st[0] == 'r':
                    if ids[0] == 0:
                        ops.append('feed ' + hx(initial or b''))       # `_on_registered` decodes the initial data
                    for j in ids:
                        pst = plan['steps'][j]
                        if pst[0] == 'r':
                            ops.append('feed ' + hx(pst[1]))
                elif st[0] == 'w':
                    ops.append(f'write {st[1]} {hx(st[2])}')
                elif st[0] == 'c':
                    ops.append('close')
                counts.append(len(ops) - start)
            ws_ops.append(ops)
            ws_meta.append((head, counts))
    ws_ans = ctx.driver.batch('ws', ws_ops)

    # second pass: compare, build the spec ops
    spec_batches, spec_meta = [], []
    k = 0
    packed = []
    for case, (plans, impl, drive_err), wans in zip(cases, runs, wse_ans):
        side = case['side']
        dis, viol = None, []
        conns = []
        for ci, plan in enumerate(plans):
            ans = ws_ans[k]
            k += 1
            msteps, midx = merged_steps(plan)
            a = wans[ci].split()
            pos, counts = ws_meta[k - 1]
            model = []
            for st, nops in zip(msteps, counts):
                model.append(merge(ans[pos:pos + nops]))
                pos += nops
            conns.append((plan, msteps, model, a))
        if drive_err is not None:
            dis = {'where': 'e2e.drive', 'impl': drive_err, 'model': ''}
            packed.append((case, plans, impl, conns, dis, viol, []))
            continue
        # --- correspondence ---
        created = {}
        for ci, data in impl['created']:
            created.setdefault(ci, []).append(data)
        for ci, (plan, msteps, model, a) in enumerate(conns):
            obs = impl['obs'][ci]
            if not a or a[0] != 'upgraded':
                dis = dis or {'where': 'wse.hs-split', 'impl': 'upgraded', 'model': ' '.join(a)[:200]}
                continue
            if int(a[1]) != plan['k'] or unhx(a[2]) != plan['hs'] or unhx(a[3]) != plan['left']:
                dis = dis or {'where': 'harness.hs-split', 'impl': f"k={plan['k']} left={hx(plan['left'])[:80]}", 'model': ' '.join(a)[:200]}
            if created.get(ci) != [unhx(a[4])]:
                dis = dis or {'where': 'wse.initial-data', 'conn': ci,
                              'impl': [hx(d)[:120] for d in created.get(ci, [])], 'model': a[4][:120]}
            if len(obs) != len(msteps):
                dis = dis or {'where': 'e2e.steps', 'impl': len(obs), 'model': len(msteps)}
                continue
            for si, (st, o, mo) in enumerate(zip(msteps, obs, model)):
                if mo is None:
                    dis = dis or {'where': 'ws.bad-answer', 'impl': '', 'model': 'unparsable'}
                elif show(o) != show(mo):
                    dis = dis or {'where': 'e2e.' + {'r': 'reads', 'w': 'write', 'c': 'close', 'd': 'disconnect'}[st[0]],
                                  'conn': ci, 'step': si, 'impl': show(o)[:300], 'model': show(mo)[:300]}
                if st[0] == 'd' and (o.get('late') or impl['tables'].get(ci)):
                    dis = dis or {'where': 'wse.after-disconnect', 'conn': ci,
                                  'impl': f"events after disconnect {o.get('late')}, left in tables {impl['tables'].get(ci)}",
                                  'model': 'nothing'}
            if side == 'server':
                http = [h for o in obs for h in o['http']]
                want = accept_of(request_key(plan['hs']))
                if len(http) != 1 or b' 101 ' not in http[0].split(b'\r\n')[0] or want not in http[0]:
                    dis = dis or {'where': 'e2e.handshake-response', 'conn': ci, 'impl': repr(http)[:200], 'model': '101 + ' + want.decode()}
        if side == 'server':
            n = len(plans)
            tabs = wans[-n:]
            for ci in range(n):
                if (tabs[ci] == 'present') != (ci in impl['live']):
                    dis = dis or {'where': 'wse.table', 'conn': ci, 'impl': ci in impl['live'], 'model': tabs[ci]}
            mglob = [t for a in wans[n:-n] for t in a.split() if ':m' in t]
            iglob = [f'{ci}:{t}' for ci, t in impl['glob']]
            if mglob != iglob:
                dis = dis or {'where': 'wse.global-delivery-order', 'impl': ' '.join(iglob)[:300], 'model': ' '.join(mglob)[:300]}
        else:
            req = impl.get('request', b'')
            if not (req.startswith(b'GET /ws HTTP/1.1\r\n') and b'sec-websocket-key:' in req.lower() and req.endswith(b'\r\n\r\n')):
                dis = dis or {'where': 'e2e.upgrade-request', 'impl': repr(req)[:200], 'model': 'GET /ws + Sec-WebSocket-Key'}
        # --- spec on impl ---
        sops, smeta = [], []
        for ci, (plan, msteps, model, a) in enumerate(conns):
            obs = impl['obs'][ci]
            if len(obs) != len(msteps):
                continue
            judged = not (side == 'server' and plan['glued'])
            pseudo = {'mode': side, 'frames': case['conns'][ci]['frames'] if judged else []}
            if case['conns'][ci].get('junk'):
                pseudo['junk'] = case['conns'][ci]['junk']
            steps2 = [[s[0], b''] if s[0] == 'r' else s for s in msteps if s[0] != 'd']
            obs2 = [o for s, o in zip(msteps, obs) if s[0] != 'd']
            ops, meaning = c17.spec_ops(pseudo, steps2, obs2)
            for op, mean in zip(ops, meaning):
                sops.append(op)
                smeta.append((ci, mean, steps2))
            errs = [e for o in obs for e in o['errs']]
            if errs:
                viol.append((ci, f'exception:{errs[0]}', f'handler of the websocket components raised {errs}'))
            closed = False
            for s, o in zip(msteps, obs):
                if s[0] == 'w':
                    if closed and o['writes']:
                        viol.append((ci, 'write-after-close', 'a data frame was written after the close frame'))
                    if not closed and len(o['writes']) != 1:
                        viol.append((ci, 'written-frame', f"write produced {len(o['writes'])} frames on the socket"))
                if s[0] == 'c' or o['c'] > 0:
                    closed = True
        spec_batches.append(sops)
        spec_meta.append(smeta)
        packed.append((case, plans, impl, conns, dis, viol, None))

    spec_ans = ctx.driver.batch('ws', spec_batches) if spec_batches else []
    si = 0
    for case, plans, impl, conns, dis, viol, skip in packed:
        if skip is None:
            for (ci, (kind, idx), steps2), a in zip(spec_meta[si], spec_ans[si]):
                if a == 'ok':
                    continue
                if a in ('fail peer-encoding', 'fail peer-not-conforming', 'bad-op'):
                    dis = dis or {'where': 'harness.' + a.replace(' ', '-'), 'impl': '', 'model': a}
                elif kind == 'read':
                    viol.append((ci, a.split(' ', 1)[1], 'reaction to the peer frames is not what RFC 6455 demands'))
                else:
                    viol.append((ci, 'written-frame', f'frame written for a {len(steps2[idx][2])}-byte message does not decode to it'))
            si += 1
        viol.sort(key=lambda v: 0 if v[1].startswith('exception') else {'messages': 1, 'pongs': 2, 'pong-frame': 2}.get(v[1], 3))
        results.append((viol, dis))
        if record:
            report(ctx, case, plans, impl, viol, dis)
    return results


def signature(case, plans, impl, v):
    ci, what, _detail = v
    got = [[t for o in obs for t in o['msgs']] for obs in impl['obs']] if impl else [[] for _ in plans]
    want = [c17.expected_msgs(c['frames']) for c in case['conns']]
    return classify(case, ci, plans[ci], what, got, want)


def report(ctx, case, plans, impl, viol, dis):
    side = case['side']
    ctx.count('e2e_side', side)
    ctx.count('e2e_connections', len(plans))
    for c, p in zip(case['conns'], plans):
        ctx.count('e2e_handshake', hs_class(p))
        ctx.count('e2e_handshake_reads', min(p['k'], 6))
        ctx.count('e2e_leftover_bytes', 0 if not p['left'] else (1 if len(p['left']) < 2 else ('2-15' if len(p['left']) < 16 else '16+')))
        ctx.count('e2e_cut_class', c17.cut_class(c['frames'], [x - len(p['hs']) for x in c['cuts'] if x > len(p['hs'])]))
        for st in p['steps']:
            if st[0] in ('h', 'r'):
                ctx.count('e2e_gap', 'drain' if st[2] >= DRAIN else st[2])
            else:
                ctx.count('e2e_local_op', st[0])
        for f in c['frames']:
            ctx.count('e2e_opcode', f[1])
            ctx.count('e2e_frame_len', c17.len_class(len(unhx(f[3]))) + ('/masked' if f[2] is not None else '/unmasked'))
        if any(f[1] == 0 for f in c['frames']):
            ctx.count('e2e_fragmented', 'yes')
        if side == 'server' and p['glued']:
            ctx.count('e2e_not_judged', 'server: peer glued frames behind the upgrade request (RFC 6455 4.1)')
    if impl:
        for obs in impl['obs']:
            for o in obs:
                for t in o['other']:
                    if t == 'e':
                        ctx.count('e2e_foreign_exception', 'http parser fed frame bytes in the registration window')
    if dis:
        ctx.disagree(case, dis)
    if viol:
        sig = signature(case, plans, impl, viol[0])
        ctx.count('violation_signature', sig)
        seen = ctx.extra.setdefault('_minimised_e2e', {})
        small = case
        if seen.get(sig, 0) < 2:
            seen[sig] = seen.get(sig, 0) + 1
            small = minimise(ctx, case, sig)
        ctx.violate(small, sig, describe(small, viol[0]))
    nontrivial = any(p['k'] > 1 or p['glued'] or len(p['segs']) > p['k'] + 1 for p in plans) or len(plans) > 1
    ctx.case(slim(case), nontrivial=nontrivial, validated=dis is None)


def describe(case, v):
    if v[0] >= len(case['conns']):
        # `case` was minimised (connections dropped): the index belongs to the original case
        return f"{case['side']} endpoint, {len(case['conns'])} connection(s) after minimisation: {v[1]} - {v[2]}"
    c = case['conns'][v[0]]
    return (f"{case['side']} endpoint, {len(case['conns'])} connection(s); connection {v[0]}: {len(c['frames'])} peer frame(s) "
            f"behind a {len(unhx(c['hs']))}-byte handshake, cuts {c['cuts'][:8]}, ops {[o[:3] for o in c.get('ops', [])][:4]}: {v[1]} - {v[2]}")


def slim(case):
    c = dict(case)
    c['conns'] = []
    for conn in case['conns']:
        s = c17.slim(dict(conn, mode=case['side']))
        s.pop('mode', None)
        c['conns'].append(s)
    return c


def minimise(ctx, case, sig, budget=24):
    calls = [0]

    def fails(c):
        calls[0] += 1
        if calls[0] > budget:
            return False
        try:
            plans = [conn_plan(x, c['side']) for x in c['conns']]
            viol, _dis = evaluate(ctx, [c], record=False)[0]
            if not viol:
                return False
            impl = run_server(c, plans) if c['side'] == 'server' else run_client(c, plans)
            return signature(c, plans, impl, viol[0]) == sig
        except Exception:
            return False

    cur = case
    if len(cur['conns']) > 1:
        for i in range(len(cur['conns'])):
            cand = dict(cur, conns=[cur['conns'][i]], order=[0] * len([x for x in cur['order'] if x == i]))
            if fails(cand):
                cur = cand
                break
    for i, conn in enumerate(cur['conns']):
        for change in ({'ops': []}, {'disc': False}, {'gaps': [DRAIN]},
                       {'cuts': [x for x in conn['cuts'] if x <= len(unhx(conn['hs']))]},
                       {'cuts': [x for x in conn['cuts'] if x >= len(unhx(conn['hs']))]}):
            if all(cur['conns'][i].get(k2) == v2 for k2, v2 in change.items()):
                continue
            c2 = dict(cur['conns'][i], **change)
            cand = dict(cur, conns=cur['conns'][:i] + [c2] + cur['conns'][i + 1:])
            cand['order'] = order_for(cand)
            if fails(cand):
                cur = cand
        # fewer messages
        gs = c17.groups(cur['conns'][i]['frames'])
        if len(gs) > 1 and not cur['conns'][i].get('ops'):
            hl = len(unhx(cur['conns'][i]['hs']))
            for g in gs:
                c2 = dict(cur['conns'][i], frames=list(g))
                c2['cuts'] = [x for x in c2['cuts'] if x <= hl]
                cand = dict(cur, conns=cur['conns'][:i] + [c2] + cur['conns'][i + 1:])
                cand['order'] = order_for(cand)
                if fails(cand):
                    cur = cand
                    break
    return cur


def order_for(case, rng=None):
    """round-robin (or random) interleaving of the connections' steps"""
    counts = [len(conn_plan(c, case['side'])['steps']) for c in case['conns']]
    order = []
    left = list(counts)
    while any(left):
        live = [i for i, n in enumerate(left) if n]
        if rng is None:
            for i in live:
                order.append(i)
                left[i] -= 1
        else:
            i = rng.choice(live)
            order.append(i)
            left[i] -= 1
    return order


# ---------------------------------------------------------------------------------------
# generators
# ---------------------------------------------------------------------------------------

def gen_conn(rng, side, sc, shape=None):
    big = rng.random() < 0.06
    lengths = c17.LENGTHS if big else [0, 1, 2, 5, 30, 124, 125, 126, 127, 300]
    mode = side
    frames = c17.gen_frames(rng, mode, rng.randint(1, 3 if big else 5), lengths,
                            close=None if rng.random() < 0.55 else rng.randint(0, 7))
    hs = upgrade_request(rng) if side == 'server' else upgrade_response(rng)
    hl, n = len(hs), c17.stream_len(frames)
    shape = shape or rng.choice(['alone', 'alone', 'cut', 'glued', 'cut+glued', 'one-read'])
    if side == 'server' and shape in ('glued', 'cut+glued', 'one-read') and rng.random() < 0.6:
        shape = 'cut' if shape == 'cut+glued' else 'alone'      # most server traffic keeps RFC 6455 4.1
    cuts = set()
    glue_end = None
    if shape in ('cut', 'cut+glued'):
        pool = [1, 2, hl - 4, hl - 3, hl - 2, hl - 1, hs.find(b'\r\n'), hs.find(b'\r\n') + 1, hs.find(b'\r\n') + 2]
        for _ in range(rng.randint(1, 4)):
            cuts.add(rng.choice(pool) if rng.random() < 0.6 else rng.randint(1, hl - 1))
    if shape in ('alone', 'cut') or n == 0:
        cuts.add(hl)
    bc = c17.boundary_cuts(frames)
    if shape in ('glued', 'cut+glued') and n:
        # the read that completes the head ends inside / at the end of a frame
        if side == 'server':
            # whole frames (they are dropped with request.body; a partial frame would leave the rest of the
            # stream garbage, decoded as invalid UTF-8 texts the byte-level model does not describe)
            glue_end = hl + rng.choice([l[4] for l in c17.layout(frames)])
            cuts.add(glue_end)
        else:
            cuts.add(hl + (rng.choice(bc) if bc and rng.random() < 0.7 else rng.randint(1, n)))
    if shape != 'one-read' and n:
        pool = bc if rng.random() < 0.6 else list(range(1, n))
        for _ in range(rng.randint(0, 6)):
            if pool:
                cuts.add(hl + rng.choice(pool))
        if shape in ('glued', 'cut+glued'):
            first = glue_end if side == 'server' else min(c for c in cuts if c > hl)
            cuts = {c for c in cuts if c <= hl or c >= first}
            cuts.discard(hl)
    cuts = sorted(c for c in cuts if 0 < c < hl + n)
    nlater = len([c for c in cuts if c >= hl]) + 1
    ops = []
    r = rng.random()
    if r < 0.5:
        for _ in range(rng.randint(1, 3)):
            text = rng.random() < 0.5
            ln = rng.choice(c17.LENGTHS if rng.random() < 0.05 else [0, 1, 125, 126, 127, 200])
            ops.append([rng.randint(0, nlater), 'w', 't' if text else 'b', hx(c17.payload(rng, ln, text))])
    if r < 0.3 or r > 0.88:
        ops.append([rng.randint(0, nlater), 'c'])
        if rng.random() < 0.7:
            ops.append([nlater, 'w', 'b', hx(b'late')])
    gaps = [rng.choice([1, 1, 2, 3, DRAIN]) for _ in range(rng.randint(1, 4))]
    return {'hs': hx(hs), 'frames': frames, 'cuts': cuts, 'ops': ops, 'gaps': gaps,
            'disc': side == 'server' and rng.random() < 0.6}


def gen_cases(ctx):
    rng, sc = ctx.rng, ctx.scale
    out = []

    def add(side, conns, random_order=True):
        case = {'kind': 'e2e', 'side': side, 'conns': conns, 'keys': [c17.rkey(rng) for _ in range(3)]}
        case['order'] = order_for(case, rng if random_order else None)
        out.append(case)

    # 1. every shape of the handshake read, both sides, one connection
    for side in ('client', 'server'):
        for shape in ('alone', 'cut', 'glued', 'cut+glued', 'one-read'):
            for _ in range(4 * sc):
                add(side, [gen_conn(rng, side, sc, shape)])
    # 2. the head cut at every offset / glued bytes ending at every offset of the first frames (short streams)
    for side in ('client', 'server'):
        for _ in range(2 * sc):
            conn = gen_conn(rng, side, sc, 'alone')
            conn['frames'] = c17.gen_frames(rng, side, 2, c17.SMALL[:5], maxfrag=2)
            conn['ops'] = []
            hl = len(unhx(conn['hs']))
            n = c17.stream_len(conn['frames'])
            for c in list(range(max(1, hl - 6), hl)) + [rng.randint(1, hl - 7) for _ in range(3)]:
                add(side, [dict(conn, cuts=[c, hl])])
            if side == 'client':
                for c in range(1, n + 1):
                    add(side, [dict(conn, cuts=[hl + c] if c < n else [])])
                add(side, [dict(conn, cuts=list(range(hl - 3, hl + n)))])     # byte at a time across the seam
    # 2b. every length encoding through the endpoints: glued behind the 101 (client), behind a drained handshake (server)
    for side in ('client', 'server'):
        for n in [125, 126, 65535, 65536] + ([70000] if sc > 1 else []):
            conn = gen_conn(rng, side, sc, 'alone')
            text = rng.random() < 0.5
            masked = (side == 'server')
            conn['frames'] = [[True, 1 if text else 2, c17.rkey(rng) if masked else None, hx(c17.payload(rng, n, text))],
                              [True, 9, c17.rkey(rng) if masked else None, hx(b'pi')]]
            hl = len(unhx(conn['hs']))
            conn['ops'] = [[1, 'w', 't' if text else 'b', hx(c17.payload(rng, n, text))]]
            conn['cuts'] = [hl + rng.choice([1, 2, 3, 5, 9])] if side == 'client' else [hl, hl + rng.choice([1, 2, 3, 5, 9])]
            add(side, [conn])
    # 3. several connections at once on one dispatcher, random interleaving
    for _ in range(8 * sc):
        add('server', [gen_conn(rng, 'server', sc) for _ in range(rng.randint(2, 4))])
    # 4. random single connections
    for _ in range(20 * sc):
        side = rng.choice(['client', 'server'])
        add(side, [gen_conn(rng, side, sc)])
    return out


def run_e2e(ctx):
    ctx.trusted += ['e2e: transport double (records connect/write/close) substituted for the module global TCPClient of '
                    'circuits.web.websockets.client; recording subclass substituted for the module global WebSocketCodec of '
                    'the client and dispatcher modules (observes the data= the codec is created with)',
                    'e2e: schedules are "flush 1/2/3 times or drain between two raw reads of a connection"; local write/close '
                    'events and the reads behind the upgrade request (server) happen on a drained queue']
    ctx.assumptions += ['e2e server: the peer keeps RFC 6455 4.1 (no frame bytes before the 101); connections whose peer glues '
                        'frames behind the upgrade request are compared with the model (bytes stay in request.body) but not judged',
                        'e2e: exceptions raised inside the HTTP parser when it is fed frame bytes in the window between the '
                        '101 response and the registration of the codec (client, handler order of equal priorities) are counted, not judged']
    cases = gen_cases(ctx)
    for i in range(0, len(cases), 60):
        evaluate(ctx, cases[i:i + 60])
        if ctx.time_up():
            break

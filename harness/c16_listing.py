"""C16 extension: directory listings inside the model (CV.StaticListing).

For docroots with hostile file names the real `Static` dispatcher is asked for listings (at `/`, under mount
prefixes, with / without trailing slash, sloppy spellings); the HTML is parsed with html.parser;
  (B) entries, hrefs, dir markers, `<li>` text, parent link and the "leads back" flags are compared with the Lean model
      (`cvdriver staticpath`, op `listing`), the leaves `quote` / `escape` with urllib.parse.quote / html.escape;
  (C) C16's statement is judged on the implementation alone: the shown names are the children of the listed directory
      (`listing-shows-foreign-name`, `listing-incomplete`), every href - followed through the real dispatcher the way a
      client does (fragment and query cut off) - is answered from inside the root (`listing-link-escapes-root`) by the
      child it stands for (`listing-link-dead`, `listing-link-wrong-node`).
"""
import html
import os
import shutil
import tempfile
from html.parser import HTMLParser
from urllib.parse import quote, unquote, urlsplit

from framework import sx

# fixed hostile tree (relative to <base>); names ending in '/' are (empty) directories
LTREE = [
    'outside.txt', 'root-evil/e.txt',
    'root/plain.txt', 'root/.hidden', 'root/.hid dir/x.txt', 'root/a b.txt', 'root/p%41.txt', 'root/pA.txt', 'root/..x',
    'root/...', 'root/#frag', 'root/q?x=1', 'root/quo"te.txt', "root/ap'os", 'root/<b>&amp;.txt', 'root/é€.txt',
    'root/~t', 'root/x;y', 'root/bs\\x', 'root/%', 'root/%zz', 'root/%2F', 'root/%2e%2e', 'root/plus+', 'root/sp ',
    'root/ lead', 'root/\U0001F600.txt', 'root/tab\tx', 'root/col:on', 'root/at@=&', 'root/$directory', 'root/${listing}',
    'root/sub/c.txt', 'root/sub/.h', 'root/sub/deep/z.txt',
    'root/d%41 #x/s p/f.txt', 'root/d%41 #x/s p/k"k.txt', 'root/d%41 #x/s p/.h', 'root/d%41 #x/o.txt',
    'root/dA #x/wrong.txt',
    'root/é dir/ü.txt', 'root/é dir/%C3%A9/',
    'root/emp/', 'root/withindex/index.html', 'root/withindex/other.txt', 'root/..d/y.txt', 'root/q?d/#/x',
    'root/.hid dir/', 'root/rnd/',
]
NAME_ALPHA = ['a', 'b', 'Z', '0', ' ', '%', '4', '1', '2', 'F', 'e', '.', '.', '#', '?', '"', "'", '&', '<', '>', ';', '+',
              '\\', '~', '-', '_', 'é', '€', 'ß', '\U0001F600', '‮', '=', ':', '@', '$', '{', '}', '\t', '*', '|']
# (docroot below base, mount prefix)
LCFGS = [('root', None), ('root', '/m'), ('root', '/m/'), ('root/d%41 #x', None), ('root', '/st~1.x/y'), ('root/sub', '/m')]


class ListWorld:
    def __init__(self):
        self.base = os.path.realpath(tempfile.mkdtemp(prefix='c16l-'))
        for rel in LTREE:
            p = os.path.join(self.base, rel)
            if rel.endswith('/'):
                os.makedirs(p, exist_ok=True)
                continue
            os.makedirs(os.path.dirname(p), exist_ok=True)
            with open(p, 'wb') as fh:
                fh.write(('MARK<%s>' % rel).encode('utf-8') + b' dolor\n')
        self.rnd = os.path.join(self.base, 'root', 'rnd')
        self.statics = {}
        self.content = {}
        for rel in LTREE:
            if not rel.endswith('/'):
                self.content[os.path.join(self.base, rel)] = ('MARK<%s>' % rel).encode('utf-8') + b' dolor\n'
        self.cfgs = [(os.path.join(self.base, d), pfx, True) for d, pfx in LCFGS]

    def outside_markers(self, docroot):
        return [(p, data[:data.index(b'>') + 1]) for p, data in self.content.items() if not p.startswith(docroot + '/')]

    def docroot(self, i):
        return os.path.join(self.base, LCFGS[i][0])

    def static(self, i):
        from circuits.web.dispatchers.static import Static
        if i not in self.statics:
            self.statics[i] = Static(path=LCFGS[i][1], docroot=self.docroot(i), dirlisting=True)
        return self.statics[i]

    def set_rnd(self, names):
        shutil.rmtree(self.rnd, ignore_errors=True)
        os.makedirs(self.rnd)
        for n in names:
            if n.endswith('/'):
                os.makedirs(os.path.join(self.rnd, n[:-1]), exist_ok=True)
            else:
                with open(os.path.join(self.rnd, n), 'wb') as fh:
                    fh.write(b'MARK<rnd> x\n')

    def cfg_lines(self, i):
        st = self.static(i)
        pfx = LCFGS[i][1]
        lines = ['cfg %s %s 1 %s' % (sx(st.docroot), '~' if pfx is None else sx(pfx), ' '.join(sx(x) for x in st.defaults))]
        p = self.base
        while True:
            lines.append('fs %s d' % sx(p))
            if p == '/':
                break
            p = os.path.dirname(p)
        for d, dirs, files in os.walk(self.base):
            lines += ['fs %s d' % sx(os.path.join(d, x)) for x in dirs]
            lines += ['fs %s f' % sx(os.path.join(d, x)) for x in files]
        return lines

    def close(self):
        shutil.rmtree(self.base, ignore_errors=True)


class _LiParser(HTMLParser):
    """(href, text) of every <a> inside a <li>"""

    def __init__(self):
        super().__init__(convert_charrefs=True)
        self.links = []
        self.in_li = 0
        self.cur = None

    def handle_starttag(self, tag, attrs):
        if tag == 'li':
            self.in_li += 1
        elif tag == 'a' and self.in_li:
            self.cur = [dict(attrs).get('href'), '']

    def handle_endtag(self, tag):
        if tag == 'li' and self.in_li:
            self.in_li -= 1
        elif tag == 'a' and self.cur is not None:
            self.links.append(tuple(self.cur))
            self.cur = None

    def handle_data(self, data):
        if self.cur is not None:
            self.cur[1] += data


def parse_listing(text):
    p = _LiParser()
    p.feed(text)
    p.close()
    return p.links


def client_path(href):
    """the path a client requests for an href of the page (absolute-path references only)"""
    if href is None:
        return None
    parts = urlsplit(href)
    if parts.scheme or parts.netloc or not parts.path.startswith('/'):
        return None
    return parts.path


def _name_class(n):
    cl = []
    if '%' in n:
        cl.append('percent')
    if any(c in n for c in '#?'):
        cl.append('url-delimiter')
    if any(c in n for c in '"\'<>&'):
        cl.append('html-special')
    if any(ord(c) > 127 for c in n):
        cl.append('non-ascii')
    if any(c in n for c in ' \t'):
        cl.append('space')
    return '+'.join(cl) or 'plain'


def _canonical(rel):
    return all(s not in ('', '.', '..') for s in rel.split('/')) if rel else True


def rel_of(pfx, path):
    if pfx is not None:
        if not path.startswith(pfx):
            return None
        path = path[len(pfx):]
    return unquote(path.strip('/'))


def listing_cases(ctx, world):
    rng = ctx.rng
    cases = []
    for i, (droot, pfx) in enumerate(LCFGS):
        docroot = world.docroot(i)
        lead = pfx.rstrip('/') if pfx else ''
        dirs = [d for d, _, _ in os.walk(docroot)]
        for d in dirs:
            rel = os.path.relpath(d, docroot)
            segs = [] if rel == '.' else rel.split('/')
            q = '/'.join(quote(s, safe='') for s in segs)
            spell = [lead + '/' + q, lead + '/' + q + '/']
            if segs:
                spell += [lead + '//' + q + '//', lead + '/' + '/'.join(quote(s, safe="~!$&'()*+,;=:@") for s in segs),
                          lead + '/' + '/./'.join(quote(s) for s in segs) + '/.',
                          lead + '/' + quote(segs[0]) + '/../' + q, lead + '/' + q + '/' + 'zz/..',
                          lead + '/' + q.replace('/', '%2F')]
                if all(ord(c) < 128 for c in rel):
                    spell.append(lead + '/' + ''.join('%%%02x' % ord(c) if rng.random() < 0.5 else c for c in rel))
            else:
                spell += [lead + '/.', lead + '/sub/..', lead + '//', lead]
            # the document root spelled as an absolute path (`os.path.join` lets it stand for itself)
            spell.append(lead + '/@ABS@' + quote(('/' + rel) if segs else '', safe=''))
            for s in spell:
                cases.append({'kind': 'listing', 'cfg': i, 'path': s, 'names': None})
    # random hostile names in root/rnd
    for _ in range(40 * ctx.scale):
        i = rng.choice([0, 1, 2, 4])
        pfx = LCFGS[i][1]
        lead = pfx.rstrip('/') if pfx else ''
        names = set()
        for _ in range(rng.randint(1, 6)):
            n = ''.join(rng.choice(NAME_ALPHA) for _ in range(rng.randint(1, 6)))
            if n in ('.', '..'):
                continue
            names.add(n + ('/' if rng.random() < 0.3 else ''))
        names = sorted(names)
        if len({x.rstrip('/') for x in names}) != len(names):
            continue
        cases.append({'kind': 'listing', 'cfg': i, 'path': lead + '/rnd' + rng.choice(['', '/']), 'names': names})
    return cases


def _follow(c16, world, i, path):
    """outcome tokens of the real dispatcher for `path` + escape problems"""
    obs = c16.impl_direct(world.static(i), path)
    obs['direct'] = True
    return c16.observe_path(world, i, obs)


def eval_listings(ctx, world_unused, cases):
    import c16
    world = ListWorld()
    try:
        _eval(ctx, c16, world, cases)
    finally:
        world.close()


def _eval(ctx, c16, world, cases):
    recs = []
    batches = []
    for c in cases:
        i = c['cfg']
        docroot, pfx = world.docroot(i), LCFGS[i][1]
        world.set_rnd(c.get('names') or [])
        rec = {'case': c, 'viol': [], 'dis': [], 'links': [], 'lines': None}
        recs.append(rec)
        # '@ABS@' stands for the (percent-encoded) absolute path of the document root of this run
        rpath = rec['path'] = c['path'].replace('@ABS@', quote(docroot, safe=''))
        obs = c16.impl_direct(world.static(i), rpath)
        obs['direct'] = True
        outcome, problems = c16.observe_path(world, i, obs)
        rec['viol'] += problems
        rec['outcome'] = outcome
        if obs['kind'] == 'unconstructible' or outcome is None:
            continue
        lines = world.cfg_lines(i)
        rec['nsetup'] = len(lines)
        if outcome[0] != 'listing' or outcome[1] == '?':
            lines.append('listing %s' % sx(rpath))
            rec['lines'] = lines
            batches.append(lines)
            continue
        loc = os.path.normpath(outcome[1])
        ls = os.listdir(loc)
        rec['loc'], rec['ls'] = loc, ls
        text = obs['body'].decode('utf-8', 'replace')
        rec['text'] = text
        links = parse_listing(text)
        rel = rel_of(pfx, rpath)
        rec['rel'] = rel
        up = None
        if links and links[0][1] == '..':
            up, links = links[0], links[1:]
        rec['up'], rec['shown'] = up, links
        # ---- (C) names
        kids = set(ls)
        want = sorted(n for n in ls if not n.startswith('.'))
        shown = [t[:-1] if t.endswith('/') else t for _, t in links]
        for n in shown:
            if n not in kids:
                rec['viol'].append(('listing-shows-foreign-name(not-a-child)', 'listing of %s shows %r, which is not in the directory' % (loc, n)))
                break
        if len(set(shown)) != len(shown):
            rec['viol'].append(('listing-shows-foreign-name(duplicate)', 'listing of %s shows a name twice: %r' % (loc, shown)))
        if sorted(set(shown) | {n for n in kids if n.startswith('.')}) != sorted(kids):
            rec['viol'].append(('listing-incomplete', 'listing of %s shows %r, the directory has %r' % (loc, sorted(shown), want)))
        # ---- (C) links
        absolute = rel is not None and rel.startswith('/')
        canonical = rel is not None and not absolute and _canonical(rel)
        follow_ops = []
        for (href, t), n in zip(links, shown):
            cp = client_path(href)
            child = os.path.join(loc, n)
            isdir = os.path.isdir(child)
            led = False
            if cp is None:
                res = None
                rec['viol'].append(('listing-link-dead(not-a-path:%s)' % _name_class(n), 'href %r of entry %r is no absolute path' % (href, n)))
            else:
                res, probs = _follow(c16, world, i, cp)
                follow_ops.append((cp, res))
                for sig, what in probs:
                    rec['viol'].append(('listing-link-escapes-root(entry)' if sig.startswith('escape') else sig,
                                        'href %r of the listing of %s: %s' % (href, loc, what)))
                if res and res[0] in ('file', 'listing') and res[1] != '?' and not c16.under(os.path.normpath(res[1]), docroot):
                    rec['viol'].append(('listing-link-escapes-root(entry)', 'href %r of entry %r is answered from %s (root %s)' % (href, n, res[1], docroot)))
                elif res and res[0] in ('file', 'listing'):
                    got = os.path.normpath(res[1])
                    dflts = [os.path.join(child, d) for d in world.static(i).defaults]
                    if (res[0] == 'file' and (got == child or (isdir and got in dflts))) or (res[0] == 'listing' and isdir and got == child):
                        led = True
                    else:
                        rec['viol'].append(('listing-link-wrong-node(entry:%s)' % _name_class(n),
                                            'href %r of entry %r in the listing of %s is answered from %s' % (href, n, loc, got)))
                elif absolute:
                    # a request path whose decoded form is the absolute file-system path of a directory inside the root
                    # (/%2Fsrv%2Fwww%2Fsub) is answered with that listing, but its hrefs are built as if the path were
                    # relative and are answered not-found: nothing outside the root is served and the listing shows the right
                    # names, so this is recorded (and compared with the model), not judged against C16
                    ctx.count('listing_not_judged', 'dead entry link below an absolute request path')
                else:
                    why = 'entry:%s' % _name_class(n)
                    rec['viol'].append(('listing-link-dead(%s)' % why,
                                        'href %r of entry %r in the listing of %s (request %r) is answered with %r' % (href, n, loc, rpath, res)))
            rec['links'].append((n, href, t.endswith('/'), led))
            ctx.count('listing_entry_name_class', _name_class(n))
            ctx.count('listing_entry_kind', 'dir' if isdir else 'file')
            ctx.count('listing_link_followed', 'leads back' if led else 'does not')
        if up is not None:
            cp = client_path(up[0])
            if cp is None:
                rec['viol'].append(('listing-link-dead(parent)', 'parent href %r is no absolute path' % (up[0],)))
            else:
                res, probs = _follow(c16, world, i, cp)
                follow_ops.append((cp, res))
                for sig, what in probs:
                    rec['viol'].append(('listing-link-escapes-root(parent)' if sig.startswith('escape') else sig,
                                        'parent href %r of the listing of %s: %s' % (up[0], loc, what)))
                inside = res and res[0] in ('file', 'listing') and res[1] != '?'
                if inside and not c16.under(os.path.normpath(res[1]), docroot):
                    rec['viol'].append(('listing-link-escapes-root(parent)', 'parent href %r is answered from %s (root %s)' % (up[0], res[1], docroot)))
                elif canonical and loc != docroot:
                    par = os.path.dirname(loc)
                    dflts = [os.path.join(par, d) for d in world.static(i).defaults]
                    got = os.path.normpath(res[1]) if inside else None
                    if not inside:
                        rec['viol'].append(('listing-link-dead(parent)', 'parent href %r in the listing of %s is answered with %r' % (up[0], loc, res)))
                    elif not ((res[0] == 'listing' and got == par) or (res[0] == 'file' and got in dflts)):
                        rec['viol'].append(('listing-link-wrong-node(parent)', 'parent href %r in the listing of %s is answered from %s' % (up[0], loc, got)))
                ctx.count('listing_parent_link', 'followed:%s' % (res[0] if res else None))
        else:
            ctx.count('listing_parent_link', 'absent')
        if loc == docroot and canonical and up is not None:
            rec['dis'].append({'where': 'listing.parent-at-root', 'impl': up, 'model': None})
        # ---- model
        lines.append('listing %s %s' % (sx(rpath), ' '.join(sx(n) for n in ls)))
        rec['follow'] = []
        for cp, res in follow_ops:
            if c16._encodable(cp):
                rec['follow'].append((cp, res, len(lines)))
                lines.append('serve %s' % sx(cp))
        rec['lines'] = lines
        batches.append(lines)
        ctx.count('listing_spelling', 'absolute' if absolute else 'canonical' if canonical else 'sloppy')
        ctx.count('listing_entries', min(len(links), 12))
    answers = ctx.driver.batch('staticpath', batches) if batches else []
    k = 0
    for rec in recs:
        c = rec['case']
        ok = True
        seen = set()
        for sig, what in rec['viol']:
            if sig not in seen:        # one report per failure shape and case
                seen.add(sig)
                ctx.violate(c, sig, what)
        for d in rec['dis']:
            ctx.disagree(c, d)
            ok = False
        if rec['lines'] is None:
            ctx.count('listing_outcome', 'unobservable')
            ctx.case(c, nontrivial=False, validated=False)
            continue
        ans = answers[k]
        k += 1
        if any(a != 'ok' for a in ans[:rec['nsetup']]):
            from framework import Infra
            raise Infra('staticpath: configuration lines refused (listing)')
        la = ans[rec['nsetup']].split(' ')
        outcome = rec['outcome']
        ctx.count('listing_outcome', outcome[0])
        ctx.count('listing_cfg', '%s mounted at %r' % LCFGS[c['cfg']])
        if outcome[0] != 'listing' or outcome[1] == '?':
            model = la[1:] if la[0] == 'none' else la[:2]
            if model and model[0] in ('file', 'listing') and len(model) > 1:
                model = [model[0], bytes.fromhex(model[1]).decode('utf-8')]
            if la[0] != 'none' or model != outcome:
                ctx.disagree(c, {'where': 'listing.outcome', 'impl': outcome, 'model': model})
                ok = False
            ctx.case(c, nontrivial=False, validated=ok)
            continue
        dec = lambda t: '' if t == '-' else bytes.fromhex(t).decode('utf-8')  # noqa: E731
        if la[0] != 'listing' or (len(la) - 3) % 5:
            ctx.disagree(c, {'where': 'listing.outcome', 'impl': outcome, 'model': la[:3]})
            ctx.case(c, nontrivial=True, validated=False)
            continue
        m_loc = dec(la[1])
        m_up = None if la[2] == '~' else tuple(dec(x) for x in la[2].split(','))
        m_ent = [(dec(la[j]), dec(la[j + 1]), la[j + 2] == 'd', dec(la[j + 3]), la[j + 4] == 'y') for j in range(3, len(la), 5)]
        if m_loc != rec['loc']:
            ctx.disagree(c, {'where': 'listing.directory', 'impl': rec['loc'], 'model': m_loc})
            ok = False
        impl_ent = [(n, h, d) for n, h, d, _ in rec['links']]
        if impl_ent != [(n, h, d) for n, h, d, _, _ in m_ent]:
            ctx.disagree(c, {'where': 'listing.entries(name, href, dir marker)', 'impl': impl_ent, 'model': [e[:3] for e in m_ent]})
            ok = False
        elif [led for _, _, _, led in rec['links']] != [e[4] for e in m_ent]:
            ctx.disagree(c, {'where': 'listing.leads-back', 'impl': [x[3] for x in rec['links']], 'model': [e[4] for e in m_ent]})
            ok = False
        block = '\n'.join(e[3] for e in m_ent)
        if block not in rec['text'] or rec['text'].count('<li>') != len(m_ent) + (1 if m_up else 0):
            ctx.disagree(c, {'where': 'listing.li-lines', 'impl': [x for x in rec['text'].split('\n') if '<li>' in x], 'model': block})
            ok = False
        iu = rec['up']
        if (iu is None) != (m_up is None) or (iu is not None and (iu[0] != m_up[0] or m_up[1] not in rec['text'])):
            ctx.disagree(c, {'where': 'listing.parent-link', 'impl': iu, 'model': m_up})
            ok = False
        for cp, res, idx in rec['follow']:
            model = ans[idx].split(' ')
            if model[0] in ('file', 'listing'):
                model[1] = bytes.fromhex(model[1]).decode('utf-8')
            if model != res:
                ctx.disagree(c, {'where': 'listing.follow(serve)', 'handed': cp, 'impl': res, 'model': model})
                ok = False
        ctx.case(c, nontrivial=True, validated=ok)


# ---------------------------------------------------------------------------------------
# leaves: urllib.parse.quote, html.escape
# ---------------------------------------------------------------------------------------

def qleaf_cases(ctx):
    rng = ctx.rng
    alpha = NAME_ALPHA + ['/', '/', 'A', 'z', '9', '\x7f', '\x00', '\u0080', '߿', 'ࠀ', '￿', '\U00010000', '\U0010ffff', '\n']
    cases = [{'kind': 'qleaf', 'fn': fn, 's': c} for fn in ('quote', 'escape') for c in sorted(set(alpha))]
    for _ in range(150 * ctx.scale):
        s = ''.join(rng.choice(alpha) for _ in range(rng.randint(0, 10)))
        cases.append({'kind': 'qleaf', 'fn': rng.choice(['quote', 'escape']), 's': s})
    return cases


def eval_qleaves(ctx, world_unused, cases):
    lines = ['%s %s' % (c['fn'], sx(c['s'])) for c in cases]
    ans = ctx.driver.run('staticpath', lines)
    for c, a in zip(cases, ans):
        real = quote(c['s']) if c['fn'] == 'quote' else html.escape(c['s'], True)
        ok = a == sx(real)
        if not ok:
            ctx.disagree(c, {'where': 'leaf.' + c['fn'], 'impl': real, 'model': a})
        if c['fn'] == 'quote' and unquote(real) != c['s']:
            ok = False
            ctx.disagree(c, {'where': 'leaf.unquote(quote(s)) == s (stdlib)', 'impl': unquote(real), 'model': c['s']})
        ctx.count('listing_leaf', c['fn'])
        ctx.case(c, nontrivial=True, validated=ok)

"""
C17 - WebSocket frames round-trip exactly, whatever the segmentation or fragmentation.

A case is a *session* with one real `WebSocketCodec` (server mode: socket token, unmasked
out; client mode: no socket, masked out with the key `os.urandom` returns - substituted in
`circuits.protocols.websocket`):

  frames : what a conforming peer sends, [fin, opcode, key-hex|None, payload-hex] each,
           encoded by the harness' own RFC 6455 encoder (`rfc_encode`, independent of the
           codec and of the Lean model; the Lean RFC encoder must agree with it byte for byte)
  cuts   : where the resulting byte stream is cut into reads
  ctor   : the first read is handed to the constructor (`data=`), as client.py does
  ops    : local events between the reads: [pos, 'w', 't'|'b', payload-hex] / [pos, 'c']
  keys   : the masking keys `os.urandom(4)` yields (cyclic)

Correspondence (B): every step's observations (messages delivered on the codec's channel,
frames written on the parent's channel, close events) vs. CV.WS.feed/onWrite/onClose.
Spec on impl (C), evaluated by the Lean driver on the implementation's observations:
`specRead` (RFC-level `expected` of the peer's frame list - independent of segmentation),
`specWrite` (written frame decoded by the strict RFC decoder), plus: no exception, nothing
written by a `write` after the local close.
"""
import ast
import inspect
import itertools

from framework import cuts_to_segments, ddmin, hx, unhx

SOCK = 'SOCK'       # truthy socket token (the codec only compares and forwards it)
LENGTHS = [0, 1, 2, 124, 125, 126, 127, 128, 4095, 4096, 4097, 65535, 65536, 65537, 70000]
SMALL = [0, 1, 2, 3, 5, 124, 125]
TEXTS = ['a', 'é', '€', '𝄞', 'b', 'xy']


# ---------------------------------------------------------------------------------------
# independent RFC 6455 encoder (section 5.2) for the peer's traffic
# ---------------------------------------------------------------------------------------

def rfc_encode(fin, opcode, key, payload):
    out = bytearray()
    out.append((0x80 if fin else 0) | opcode)
    n = len(payload)
    m = 0x80 if key is not None else 0
    if n <= 125:
        out.append(m | n)
    elif n < 65536:
        out.append(m | 126)
        out += n.to_bytes(2, 'big')
    else:
        out.append(m | 127)
        out += n.to_bytes(8, 'big')
    if key is not None:
        out += key
        out += bytes(b ^ key[i & 3] for i, b in enumerate(payload))
    else:
        out += payload
    return bytes(out)


def frame_bytes(fr):
    fin, op, key, p = fr
    return rfc_encode(fin, op, None if key is None else unhx(key), unhx(p))


def layout(frames):
    """[(start, header_end(2), ext_end, key_end, end)] of every frame in the stream"""
    res = []
    pos = 0
    for fin, op, key, p in frames:
        n = len(unhx(p))
        ext = 0 if n <= 125 else (2 if n < 65536 else 8)
        k = 4 if key is not None else 0
        res.append((pos, pos + 2, pos + 2 + ext, pos + 2 + ext + k, pos + 2 + ext + k + n))
        pos += 2 + ext + k + n
    return res


def cut_class(frames, cuts):
    """where the read boundaries fall, most delicate first"""
    lay = layout(frames)
    cls = set()
    for c in cuts:
        for (s, h, e, k, end) in lay:
            if s < c < end or c == s:
                if s < c < h:
                    cls.add('cut-in-header')
                elif h <= c < e:
                    cls.add('cut-in-extended-length')
                elif e <= c < k and c != e or (e < k and c == e):
                    cls.add('cut-in-masking-key')
                elif c == s:
                    cls.add('cut-at-frame-boundary')
                else:
                    cls.add('cut-in-payload')
                break
    for name in ('cut-in-header', 'cut-in-extended-length', 'cut-in-masking-key', 'cut-in-payload',
                 'cut-at-frame-boundary'):
        if name in cls:
            return name
    return 'uncut'


def len_class(n):
    if n <= 125:
        return '7-bit'
    if n < 65536:
        return '16-bit'
    return '64-bit'


# ---------------------------------------------------------------------------------------
# implementation runner
# ---------------------------------------------------------------------------------------

class _FakeOs:
    def __init__(self, real, keys):
        self._real = real
        self._keys = keys
        self.n = 0
        self.drawn = []

    def urandom(self, n):
        if n != 4 or not self._keys:
            return self._real.urandom(n)
        k = self._keys[self.n % len(self._keys)]
        self.n += 1
        self.drawn.append(k)
        return k

    def __getattr__(self, name):
        return getattr(self._real, name)


def steps_of(case):
    """the session as a list of steps: ['r', bytes] / ['w', kind, bytes] / ['c']"""
    stream = b''.join(frame_bytes(f) for f in case['frames']) + unhx(case.get('junk', '-'))
    segs = cuts_to_segments(stream, case['cuts']) if stream else []
    ops = sorted(case.get('ops', []), key=lambda o: o[0])
    steps = []
    for i in range(len(segs) + 1):
        for o in ops:
            if min(o[0], len(segs)) == i:
                steps.append(['w', o[2], unhx(o[3])] if o[1] == 'w' else ['c'])
        if i < len(segs):
            steps.append(['r', segs[i]])
    return stream, steps


def run_impl(case):
    """drives the real codec through real events; returns one observation dict per step"""
    import circuits.protocols.websocket as wsmod
    from circuits import BaseComponent, Manager
    from circuits.net.events import close, read, write
    from cutil import Capture, drain

    client = case['mode'] == 'client'
    _stream, steps = steps_of(case)
    keys = [unhx(k) for k in case.get('keys', [])]
    fake = _FakeOs(wsmod.os, keys)
    real_os = wsmod.os
    wsmod.os = fake
    try:
        m = Manager()
        par = BaseComponent(channel='p').register(m)
        cap = Capture({'read', 'write', 'close', 'exception'}).register(m)
        drain(m)
        sockargs = [] if client else [SOCK]
        obs = []
        codec = None

        def collect(before, local_close, exc=None):
            msgs, writes, c, x, errs = [], [], 0, 0, []
            for name, args, _kw, channels in cap.log[before:]:
                if name == 'read' and 'ws' in channels:
                    v = args[-1]
                    if isinstance(v, str):
                        msgs.append('mt:' + hx(v.encode('utf-8', 'surrogatepass')))
                    else:
                        msgs.append('mb:' + hx(bytes(v)))
                elif name == 'write' and 'p' in channels:
                    writes.append('w:' + hx(bytes(args[-1])))
                elif name == 'close' and 'ws' in channels:
                    c += 1
                elif name == 'close' and 'p' in channels:
                    x += 1
                elif name == 'exception':
                    errs.append(args[0].__name__ if isinstance(args[0], type) else str(args[0]))
            if exc is not None:
                errs.append(type(exc).__name__)
            c -= local_close[0]
            return {'msgs': msgs, 'writes': writes, 'c': c, 'x': x, 'errs': errs,
                    'keys': [hx(k) for k in fake.drawn[collect.kn:]]}
        collect.kn = 0

        first_read = True
        for st in steps:
            before = len(cap.log)
            collect.kn = len(fake.drawn)
            exc = None
            local = [0, 0]
            if st[0] == 'r':
                if codec is None and case.get('ctor') and first_read:
                    try:
                        codec = wsmod.WebSocketCodec(*sockargs, data=st[1], channel='ws')
                    except Exception as e:   # the constructor runs the decoder directly
                        exc = e
                        codec = wsmod.WebSocketCodec(*sockargs, channel='ws')
                    codec.register(par)
                else:
                    if codec is None:
                        codec = wsmod.WebSocketCodec(*sockargs, channel='ws').register(par)
                        drain(m)
                        before = len(cap.log)
                    m.fire(read(*sockargs, st[1]), 'p')
                first_read = False
            else:
                if codec is None:
                    codec = wsmod.WebSocketCodec(*sockargs, channel='ws').register(par)
                    drain(m)
                    before = len(cap.log)
                if st[0] == 'w':
                    data = st[2].decode('utf-8') if st[1] == 't' else st[2]
                    m.fire(write(*sockargs, data), 'ws')
                    local[1] = 1
                else:
                    m.fire(close(*sockargs), 'ws')
                    local[0] = 1
            drain(m)
            obs.append(collect(before, local, exc))
        return obs
    finally:
        wsmod.os = real_os


def fmt(o):
    return f"{' '.join(o['msgs'])} | {' '.join(o['writes'])} | c={o['c']} x={o['x']}"


def model_ops(case):
    _stream, steps = steps_of(case)
    ops = [f"mode {case['mode']}"]
    if case.get('keys'):
        ops.append('keys ' + ''.join(case['keys']))
    for st in steps:
        if st[0] == 'r':
            ops.append('feed ' + hx(st[1]))
        elif st[0] == 'w':
            ops.append(f'write {st[1]} {hx(st[2])}')
        else:
            ops.append('close')
    return ops, steps


def frame_tok(fr):
    fin, op, key, p = fr
    return f"f:{1 if fin else 0}:{op}:{key if key is not None else '~'}:{p}"


def spec_ops(case, steps, obs):
    """spec-on-impl op lines for this session + what each answers for"""
    m = 'c' if case['mode'] == 'client' else 's'
    ops, meaning = [], []
    stream = b''.join(frame_bytes(f) for f in case['frames'])
    # position of the local close relative to the reads
    kinds = [s[0] for s in steps]
    if 'c' not in kinds:
        cs = '0'
    else:
        i = kinds.index('c')
        if 'r' not in kinds[i:]:
            cs = '0'
        elif 'r' not in kinds[:i]:
            cs = '1'
        else:
            cs = 'm'
    toks = []
    for st, o in zip(steps, obs):
        if st[0] == 'r':
            # written frames of a read step: pongs, and the codec's own answer to a close frame
            ws = list(o['writes'])
            if o['c'] > 0 and ws and ws[-1] == 'w:8800':
                ws = ws[:-1]
            toks += ws
            toks += o['msgs']          # decoded before the close frame of the same read
            toks += ['c'] * o['c']
    if case['frames'] and not case.get('junk'):
        ops.append(f"spec-read {m} {cs} {hx(stream)} {' '.join(frame_tok(f) for f in case['frames'])} | {' '.join(toks)}")
        meaning.append(('read', None))
    for i, (st, o) in enumerate(zip(steps, obs)):
        if st[0] == 'w' and len(o['writes']) == 1 and o['writes'][0].startswith('w:'):
            key = o['keys'][0] if o['keys'] else '00000000'
            ops.append(f"spec-write {m} {key} {st[1]} {hx(st[2])} {o['writes'][0][2:]}")
            meaning.append(('write', i))
    return ops, meaning


def classify(case, steps, obs, what):
    """deterministic signature of a failing session"""
    frames = case['frames']
    cc = cut_class(frames, case['cuts'])
    errs = [e for o in obs for e in o['errs']]
    kinds = [s[0] for s in steps]
    if what == 'exception':
        e = errs[0]
        if cc in ('cut-in-header', 'cut-in-extended-length'):
            return f'{e}({cc})'
        if 'c' in kinds and any(f[1] == 9 for f in frames):
            return f'{e}(ping-after-close-sent)'
        return f'{e}({cc})'
    if what == 'pong-frame':
        if case.get('ctor'):
            return 'pong-as-data-message(ping-in-constructor-data)'
        return 'pong-frame(not-a-conforming-pong)'
    if what == 'pongs':
        pending = False
        for fin, op, _k, _p in frames:
            if op == 9 and pending:
                return 'pong-payload(ping-inside-fragmented-message)'
            if op < 8:
                pending = not fin
        return f'pong-missing-or-wrong({cc})'
    if what == 'messages':
        got = [t for o in obs for t in o['msgs']]
        want = expected_msgs(frames)
        if len(got) == len(want) and got != want and [t[3:] for t in got] == [t[3:] for t in want]:
            frag = any(f[1] == 0 for f in frames)
            return f"type-mismatch({'fragmented' if frag else 'unfragmented'})"
        if any(f[1] == 8 for f in frames) and len(got) > len(want) and got[:len(want)] == want:
            return 'message-after-close'
        seen_close = False
        for st, o in zip(steps, obs):
            if seen_close and o['msgs']:
                return 'message-after-close'
            if o['c'] > 0:
                seen_close = True
        if errs:
            return f'{errs[0]}({cc})'
        lens = sorted({len_class(len(unhx(f[3]))) for f in frames if f[1] < 8})
        if cc in ('cut-in-header', 'cut-in-extended-length', 'cut-in-masking-key'):
            return f'payload-mismatch({cc})'
        return f"payload-mismatch({'/'.join(lens) or 'no-data'})"
    if what == 'write-after-close':
        return 'write-after-close'
    if what.startswith('written-frame'):
        return f'length-encoding({what.split(":")[1]})'
    return what


def expected_msgs(frames):
    """classification aid only (the judgement is the Lean spec): message tokens a peer means"""
    out, cur = [], None
    for fin, op, _k, p in frames:
        if op == 8:
            break
        if op >= 8:
            continue
        if cur is None:
            cur = ['mt:' if op == 1 else 'mb:', b'']
        cur[1] += unhx(p)
        if fin:
            out.append(cur[0] + hx(cur[1]))
            cur = None
    return out


def groups(frames):
    """split a conforming frame list where no message is pending (any sub-list of groups is conforming)"""
    res, cur, pending = [], [], False
    for f in frames:
        cur.append(f)
        if f[1] < 8:
            pending = not f[0]
        if not pending:
            res.append(cur)
            cur = []
    if cur:
        res.append(cur)
    return res


# ---------------------------------------------------------------------------------------
# evaluation
# ---------------------------------------------------------------------------------------

def judge(ctx, case, record=True):
    """runs one session on impl + model + spec; returns (violations[(what, detail)], disagreement|None)"""
    return evaluate(ctx, [case], record)[0]


def evaluate(ctx, cases, record=True):
    impl, allops, metas = [], [], []
    for c in cases:
        ops, steps = model_ops(c)
        try:
            with ctx.guard(c, what='WebSocket codec (reads of this case)'):
                obs = run_impl(c)
        except Exception as e:  # harness-level failure of the drive itself
            obs = [{'msgs': [], 'writes': [], 'c': 0, 'x': 0, 'errs': [type(e).__name__ + ':drive'], 'keys': []}
                   for _ in steps]
        sops, meaning = spec_ops(c, steps, obs)
        impl.append(obs)
        allops.append(ops + sops)
        metas.append((steps, len(ops), meaning))
    answers = ctx.driver.batch('ws', allops)
    results = []
    for c, obs, (steps, nops, meaning), ans in zip(cases, impl, metas, answers):
        viol = []
        dis = None
        head = len(ans[:nops]) - len(steps)
        for i, (st, o, a) in enumerate(zip(steps, obs, ans[head:nops])):
            if a.strip() != fmt(o).strip() and dis is None:
                dis = {'where': 'ws.' + {'r': 'feed', 'w': 'write', 'c': 'close'}[st[0]], 'step': i,
                       'impl': fmt(o)[:300], 'model': a[:300]}
        if any(o['errs'] for o in obs):
            viol.append(('exception', f"handler raised {[e for o in obs for e in o['errs']]}"))
        for (kind, idx), a in zip(meaning, ans[nops:]):
            if a == 'ok':
                continue
            if a in ('fail peer-encoding', 'fail peer-not-conforming', 'bad-op'):
                dis = dis or {'where': 'harness.' + a.replace(' ', '-'), 'impl': '', 'model': a}
                continue
            if kind == 'read':
                viol.append((a.split(' ', 1)[1], 'reaction to the peer frames is not what RFC 6455 demands'))
            else:
                n = len(steps[idx][2])
                viol.append((f'written-frame:{len_class(n)}:{n}',
                             f'frame written for a {n}-byte message does not decode to it'))
        closed = False      # a close frame was written (local close, or answer to the peer's close)
        for st, o in zip(steps, obs):
            if st[0] == 'w':
                if closed and o['writes']:
                    viol.append(('write-after-close', 'a data frame was written after the close frame'))
                if not closed and len(o['writes']) != 1:
                    viol.append((f'written-frame:{len_class(len(st[2]))}:{len(st[2])}',
                                 f'write produced {len(o["writes"])} frames'))
            if st[0] == 'c' or o['c'] > 0:
                closed = True
        results.append((viol, dis, steps, obs))
        if record:
            report(ctx, c, viol, dis, steps, obs)
    return results


def report(ctx, case, viol, dis, steps, obs):
    frames = case['frames']
    ctx.count('mode', case['mode'])
    ctx.count('cut_class', cut_class(frames, case['cuts']))
    ctx.count('segments', min(len(case['cuts']) + 1, 12))
    for f in frames:
        ctx.count('opcode', f[1])
        ctx.count('frame_len', len_class(len(unhx(f[3]))) + ('/masked' if f[2] is not None else '/unmasked'))
    for st in steps:
        if st[0] != 'r':
            ctx.count('local_op', st[0] if st[0] == 'c' else 'w/' + len_class(len(st[2])))
    nfrag = sum(1 for f in frames if f[1] == 0)
    if nfrag:
        ctx.count('fragmented', 'yes')
    if case.get('ctor'):
        ctx.count('ctor_data', 'yes')
    if dis:
        ctx.disagree(case, dis)
    if viol:
        sig0 = classify(case, steps, obs, viol[0][0])
        ctx.count('violation_signature', sig0)
        seen = ctx.extra.setdefault('_minimised', {})
        if seen.get(sig0, 0) < 2:      # minimise the first two sessions of every failure shape
            seen[sig0] = seen.get(sig0, 0) + 1
            small = minimise(ctx, case, viol[0][0])
            v, _d, st2, ob2 = evaluate(ctx, [small], record=False)[0]
            if v:
                ctx.violate(small, classify(small, st2, ob2, v[0][0]), describe(small, v[0]))
            else:
                ctx.violate(case, sig0, describe(case, viol[0]))
        else:
            ctx.violate(case, sig0, describe(case, viol[0]))
    nontrivial = bool(case['cuts']) or nfrag > 0 or any(s[0] != 'r' for s in steps)
    ctx.case(slim(case), nontrivial=nontrivial, validated=dis is None)


def slim(case):
    """evidence samples: keep big payloads out of the JSON"""
    c = dict(case)
    c['frames'] = [[f[0], f[1], f[2], f[3] if len(f[3]) <= 64 else f'<{len(f[3]) // 2} bytes>'] for f in case['frames']]
    c['ops'] = [o if len(o) < 4 or len(o[3]) <= 64 else [o[0], o[1], o[2], f'<{len(o[3]) // 2} bytes>'] for o in case.get('ops', [])]
    return c


def describe(case, v):
    return (f"{case['mode']} codec, {len(case['frames'])} peer frame(s), cuts {case['cuts'][:8]}, "
            f"ops {[o[:3] for o in case.get('ops', [])][:4]}: {v[0]} - {v[1]}")


def minimise(ctx, case, what, budget=80):
    """shrink cuts, then frames, then ops, keeping the same kind of failure"""
    calls = [0]

    def fails(c):
        calls[0] += 1
        if calls[0] > budget:
            return False
        try:
            v = evaluate(ctx, [c], record=False)[0][0]
        except Exception:
            return False
        return any(w == what or (w.split(':')[0] == what.split(':')[0]) for w, _ in v)

    cur = dict(case)
    if len(cur['cuts']) > 1:
        for c in cur['cuts']:
            cand = dict(cur, cuts=[c])
            if fails(cand):
                cur = cand
                break
        else:
            cuts = ddmin(cur['cuts'], lambda cs: fails(dict(cur, cuts=sorted(cs))))
            cur = dict(cur, cuts=sorted(cuts))
    if len(cur.get('ops', [])) > 1:
        ops = ddmin(cur['ops'], lambda os_: fails(dict(cur, ops=list(os_))))
        if fails(dict(cur, ops=list(ops))):
            cur = dict(cur, ops=list(ops))
    if cur.get('ops') and fails(dict(cur, ops=[])):
        cur = dict(cur, ops=[])
    # whole messages / stand-alone control frames (cut positions are kept only when uncut or re-derivable)
    gs = groups(cur['frames'])
    if len(gs) > 1 and len(cur['cuts']) <= 1:
        def with_groups(sel):
            fr = [f for g in sel for f in g]
            c = dict(cur, frames=fr)
            if cur['cuts']:
                # keep the cut at the same offset relative to the frame it falls into
                pos = cur['cuts'][0]
                lay_old = layout(cur['frames'])
                idx = next((i for i, l in enumerate(lay_old) if l[0] <= pos <= l[4]), None)
                if idx is None or cur['frames'][idx] not in fr:
                    c['cuts'] = []
                else:
                    j = fr.index(cur['frames'][idx])
                    c['cuts'] = [layout(fr)[j][0] + (pos - lay_old[idx][0])]
                    if c['cuts'][0] <= 0 or c['cuts'][0] >= stream_len(fr):
                        c['cuts'] = []
            return c
        sel = ddmin(gs, lambda g: fails(with_groups(g)))
        cand = with_groups(sel)
        if fails(cand):
            cur = cand
    return cur


# ---------------------------------------------------------------------------------------
# parameters extracted from the live code
# ---------------------------------------------------------------------------------------

def extract_params():
    """thresholds of `_encode_tail` and opcodes of `_parse_messages` / `_on_write`, from the AST"""
    import circuits.protocols.websocket as wsmod
    tree = ast.parse(inspect.getsource(wsmod))
    res = {}
    fn = {n.name: n for n in ast.walk(tree) if isinstance(n, ast.FunctionDef)}
    thr = []
    for n in ast.walk(fn['_encode_tail']):
        if isinstance(n, ast.Compare) and isinstance(n.left, ast.Name) and n.left.id == 'data_length' \
                and isinstance(n.ops[0], ast.LtE) and isinstance(n.comparators[0], ast.Constant):
            thr.append(n.comparators[0].value)
    if len(thr) == 2:
        res['thr7'], res['thr16'] = thr
    ops = []
    for n in ast.walk(fn['_parse_messages']):
        if isinstance(n, ast.Compare) and isinstance(n.left, ast.Name) and n.left.id == 'opcode' \
                and isinstance(n.ops[0], ast.Eq) and isinstance(n.comparators[0], ast.Constant):
            ops.append(n.comparators[0].value)
    ops = sorted(set(ops))
    # opcode == 1 (text), == 0 (continuation), == 8 (close), == 9 (ping)
    if ops == [0, 1, 8, 9]:
        res['opText'], res['opClose'], res['opPing'] = 1, 8, 9
    else:
        res['opcodes_compared'] = ops
    return res


def check_params(ctx):
    try:
        p = extract_params()
    except Exception as e:
        ctx.param('websocket constants extractable', False, repr(e))
        return
    names = ['thr7', 'thr16', 'opText', 'opClose', 'opPing']
    lines = [f'param {n} {p[n]}' for n in names if n in p]
    ans = ctx.driver.run('ws', lines) if lines else []
    got = dict(zip([n for n in names if n in p], ans))
    for n in names:
        if n not in p:
            ctx.param(f'ws.{n}', False, f'not found in the source (found {p})')
        else:
            ctx.param(f'ws.{n}', got[n] == 'ok', f'code={p[n]} driver={got[n]}')


# ---------------------------------------------------------------------------------------
# generators
# ---------------------------------------------------------------------------------------

def rkey(rng):
    return hx(bytes(rng.randrange(256) for _ in range(4)))


def payload(rng, n, text):
    if text:
        chunk = ''.join(rng.choice(TEXTS) for _ in range(24)).encode()
        b = (chunk * (n // len(chunk) + 1))[:n]
        # trim to a character boundary, pad with ASCII to exactly n bytes
        while b:
            try:
                b.decode('utf-8')
                break
            except UnicodeDecodeError:
                b = b[:-1]
        return b + b'z' * (n - len(b))
    if n <= 64:
        return bytes(rng.randrange(256) for _ in range(n))
    seed = bytes(rng.randrange(256) for _ in range(61))
    return (seed * (n // 61 + 1))[:n]


def gen_frames(rng, mode, nmsg, lengths, maxfrag=4, ctl=True, close=None, force_mask=None):
    """a conforming peer's frame list; returns frames"""
    frames = []
    # a conforming peer of a server masks, of a client does not; the codec accepts both,
    # so some sessions use the other convention as well
    def key():
        masked = force_mask if force_mask is not None else ((mode == 'server') != (rng.random() < 0.15))
        return rkey(rng) if masked else None

    def ctl_frame():
        op = rng.choice([9, 9, 10])
        n = rng.choice([0, 1, 2, 5, 125])
        return [True, op, key(), hx(payload(rng, n, False))]

    for _ in range(nmsg):
        if ctl and rng.random() < 0.3:
            frames.append(ctl_frame())
        text = rng.random() < 0.5
        n = rng.choice(lengths)
        data = payload(rng, n, text)
        nfrag = rng.randint(1, maxfrag)
        if nfrag == 1:
            parts = [data]
        else:
            # any split of the bytes (also inside a multi-byte character, also empty fragments)
            pts = sorted(rng.randint(0, n) for _ in range(nfrag - 1))
            parts = [data[a:b] for a, b in zip([0] + pts, pts + [n])]
        for i, part in enumerate(parts):
            op = (1 if text else 2) if i == 0 else 0
            frames.append([i == len(parts) - 1, op, key(), hx(part)])
            if ctl and i < len(parts) - 1 and rng.random() < 0.5:
                for _ in range(rng.randint(1, 2)):
                    frames.append(ctl_frame())
    if close is not None:
        closef = [True, 8, key(), hx(payload(rng, rng.choice([0, 2, 10]), False))]
        frames.insert(min(close, len(frames)), closef)
        # keep the list conforming up to the close frame: cut a pending message there
        frames = fix_after_close(frames)
    return frames


def fix_after_close(frames):
    """after the close frame a peer sends nothing that matters; keep what follows conforming
    for the spec's `conforming` (which stops at the close frame anyway)"""
    return frames


def boundary_cuts(frames):
    """every cut position inside a header / extended length / masking key / first payload bytes"""
    cuts = set()
    for (s, h, e, k, end) in layout(frames):
        for c in range(s, min(k + 2, end) + 1):
            cuts.add(c)
        cuts.add(end - 1)
        cuts.add(end)
    total = layout(frames)[-1][4] if frames else 0
    return sorted(c for c in cuts if 0 < c < total)


def stream_len(frames):
    return layout(frames)[-1][4] if frames else 0


def sessions(ctx):
    rng = ctx.rng
    sc = ctx.scale
    out = []

    def add(mode, frames, cuts, ops=(), ctor=False, keys=None, junk=None):
        c = {'kind': 'session', 'mode': mode, 'frames': frames, 'cuts': list(cuts), 'ops': [list(o) for o in ops],
             'ctor': bool(ctor), 'keys': keys if keys is not None else [rkey(rng) for _ in range(3)]}
        if junk:
            c['junk'] = junk
        out.append(c)

    # 1. small scope, exhaustive single cuts (and byte-at-a-time): 1-3 short messages with
    #    fragmentation and interleaved control frames
    for i in range(14 * sc):
        mode = rng.choice(['server', 'client'])
        frames = gen_frames(rng, mode, rng.randint(1, 3), SMALL[:5] + [6, 9], close=None if rng.random() < 0.6 else rng.randint(1, 6))
        n = stream_len(frames)
        if n > 120:
            continue
        add(mode, frames, [])
        for c in range(1, n):
            add(mode, frames, [c], ctor=(c % 5 == 0))
        add(mode, frames, list(range(1, n)))
    # 2. all length encodings x masked/unmasked, cut at every header/extended-length/key offset
    for mode in ('server', 'client'):
        for n in LENGTHS:
            for masked in (True, False):
                text = rng.random() < 0.5
                frames = [[True, 1 if text else 2, rkey(rng) if masked else None, hx(payload(rng, n, text))]]
                if rng.random() < 0.5:
                    frames.append([True, 9, rkey(rng) if masked else None, hx(b'pi')])
                bc = [c for c in boundary_cuts(frames)]
                head = [c for c in bc if c <= 16]
                if n > 4097:
                    # big payloads: all header offsets at once (byte-at-a-time through the header),
                    # and one single cut inside the extended length
                    add(mode, frames, head)
                    if sc > 1 or masked == (mode == 'server'):
                        add(mode, frames, [rng.choice([c for c in head if 2 <= c <= 9])])
                    continue
                add(mode, frames, [])
                for c in bc:
                    if n <= 128 or c <= 5 or rng.random() < 0.15 * sc:
                        add(mode, frames, [c])
                add(mode, frames, head)
    # 3. random sessions: several messages, any lengths, fragmentation, ctl frames, close,
    #    local writes / local close between the reads, random k-cuts
    for i in range(60 * sc):
        mode = rng.choice(['server', 'client'])
        big = rng.random() < 0.08
        lengths = LENGTHS if big else [0, 1, 2, 5, 30, 124, 125, 126, 127, 300]
        frames = gen_frames(rng, mode, rng.randint(1, 4 if big else 6), lengths,
                            close=None if rng.random() < 0.5 else rng.randint(0, 8))
        n = stream_len(frames)
        for _ in range(1 if big else 3):
            k = rng.randint(0, 8)
            pool = boundary_cuts(frames) if rng.random() < 0.6 else list(range(1, n))
            cuts = sorted(set(rng.choice(pool) for _ in range(k))) if pool and k else []
            ops = []
            r = rng.random()
            nseg = len(cuts) + 1
            if r < 0.5:
                for _ in range(rng.randint(1, 3)):
                    text = rng.random() < 0.5
                    ln = rng.choice(LENGTHS if rng.random() < 0.05 else [0, 1, 125, 126, 127, 200])
                    ops.append([rng.randint(0, nseg), 'w', 't' if text else 'b', hx(payload(rng, ln, text))])
            if r < 0.35 or r > 0.85:
                ops.append([rng.randint(0, nseg), 'c'])
                if rng.random() < 0.7:
                    ops.append([nseg, 'w', 'b', hx(b'late')])
            add(mode, frames, cuts, ops, ctor=rng.random() < 0.2)
    # 4. writes alone: every length boundary, both modes, text and binary
    for mode in ('server', 'client'):
        ops = []
        for n in LENGTHS + [200, 1000]:
            for kind in ('t', 'b'):
                ops.append([0, 'w', kind, hx(payload(rng, n, kind == 't'))])
        add(mode, [], [], ops)
        add(mode, [], [], [[0, 'w', 't', hx(b'x')], [0, 'c'], [0, 'w', 't', hx(b'y')], [0, 'w', 'b', hx(b'z')], [0, 'c']])
    # 5. trailing garbage after a close frame, incomplete last frame (correspondence only)
    for i in range(6 * sc):
        mode = rng.choice(['server', 'client'])
        frames = gen_frames(rng, mode, 2, SMALL, close=rng.randint(1, 3))
        n = stream_len(frames)
        junk = hx(bytes(rng.randrange(256) for _ in range(rng.randint(1, 12))))
        add(mode, frames, sorted(set(rng.randint(1, n + 3) for _ in range(rng.randint(0, 4)))), junk=junk)
    if ctx.tier == 'thorough' or ctx.searching:
        # all 2-cuts of short streams
        for i in range(6 * sc):
            mode = rng.choice(['server', 'client'])
            frames = gen_frames(rng, mode, rng.randint(1, 2), [0, 1, 2, 3], maxfrag=3)
            n = stream_len(frames)
            if n > 40:
                continue
            for cuts in itertools.combinations(range(1, n), 2):
                add(mode, frames, list(cuts))
    return out


def run(ctx):
    ctx.rule = ('sessions with a real WebSocketCodec (server and client mode): peer frame lists from an independent '
                'RFC 6455 encoder (1-6 messages, payload lengths 0,1,2,124..128,4095..4097,65535..65537,70000, text/binary, '
                '1-4 fragments incl. empty ones and cuts inside UTF-8 characters, ping/pong between fragments, close at a '
                'random place, masked and unmasked) x cuts (every single cut + byte-at-a-time for streams <= 120 bytes; '
                'every offset inside header / extended length / masking key for every length class; random k-cuts) x '
                'local write/close events between the reads; first read through the constructor in some sessions; '
                'non-trivial = cut stream, fragmented message or a local op; distinct = distinct session. '
                'Endpoint part (c17_e2e): the same frame generators behind a real HTTP Upgrade handshake through the real '
                'WebSocketsDispatcher (1-4 connections at once, random interleaving, disconnect) and the real WebSocketClient '
                '(scripted peer): handshake alone / cut anywhere / frames glued behind it in the same read / everything in one '
                'read; flush-1/2/3/drain schedules between reads; local write/close between the reads')
    ctx.trusted += ['bytes.decode("utf-8","replace") inverts str.encode on the generated (valid UTF-8) texts',
                    'harness RFC 6455 encoder for peer traffic: cross-checked byte for byte against CV.WS.rfcEncodeFrames on every session',
                    'os.urandom substituted in circuits.protocols.websocket to make masking keys observable']
    ctx.assumptions += ['peer traffic is conforming (CV.WS.conforming): control frames unfragmented, continuation only '
                        'inside a message, payload < 2^63 bytes; text payloads are valid UTF-8 as a whole',
                        'the unmasked close frame b"\\x88\\x00" written in client mode is outside the statement (not judged)']
    check_params(ctx)
    corpus = ctx.corpus()
    cases = [c for c in corpus if c.get('kind') != 'e2e'] + sessions(ctx)
    for i in range(0, len(cases), 150):
        evaluate(ctx, cases[i:i + 150])
        if ctx.time_up():
            break
    # the endpoints: the codec as installed by WebSocketsDispatcher / WebSocketClient (harness/c17_e2e.py)
    import c17_e2e
    e2e_corpus = [c for c in corpus if c.get('kind') == 'e2e']
    if e2e_corpus:
        c17_e2e.evaluate(ctx, e2e_corpus)
    c17_e2e.run_e2e(ctx)


def search(ctx):
    run(ctx)


def replay(ctx, case):
    if case.get('kind') == 'e2e':
        import c17_e2e
        c17_e2e.evaluate(ctx, [case])
    else:
        evaluate(ctx, [case])

"""C05 - see core_mod.SPEC['C05'] (generators, projections) and core_props.oracle_c05 (spec on the implementation).

Plus a directed, implementation-only family `shape_cases` (both tiers): closures whose *size* is far outside what the random
scenarios reach - a chain of depth d (each handler fires the next event), a fan-out of width w below one handler, and a comb
(chain whose every level also fires w leaves), under a root that asks for `complete`; some members cancelled or raising.  C05
quantifies over "every finite tree of events (fan-out, depth ...)"; the Lean theorems have no size bound, but whether the Python
code walks a deep closure with bounded stack is a fact about the implementation that only running it can show.  Judged on the
implementation alone with C05's own clauses: `<name>_complete` exactly once, only after every member of the closure was
dispatched, and nothing escapes the loop.
"""
import core_mod

DEPTHS_QUICK = [1, 10, 150, 1200, 3000]
WIDTHS_QUICK = [1, 50, 2000]


def run(ctx):
    core_mod.run(ctx, 'C05')
    shape_cases(ctx)


def search(ctx):
    core_mod.run(ctx, 'C05')
    shape_cases(ctx)


def replay(ctx, case):
    if case.get('kind') == 'shape':
        check_shape(ctx, case)
        return
    core_mod.replay(ctx, 'C05', case)


def shape_cases(ctx):
    for d in DEPTHS_QUICK + ([6000] if ctx.scale > 1 else []):
        for spoil in ('none', 'cancel-last', 'raise-middle', 'stop-middle'):
            check_shape(ctx, {'kind': 'shape', 'shape': 'chain', 'depth': d, 'width': 0, 'spoil': spoil})
    for w in WIDTHS_QUICK:
        check_shape(ctx, {'kind': 'shape', 'shape': 'fan', 'depth': 1, 'width': w, 'spoil': 'none'})
        check_shape(ctx, {'kind': 'shape', 'shape': 'fan', 'depth': 1, 'width': w, 'spoil': 'cancel-last'})
    for d, w in ((40, 3), (400, 2)):
        check_shape(ctx, {'kind': 'shape', 'shape': 'comb', 'depth': d, 'width': w, 'spoil': 'none'})


def run_shape(case):
    """-> dict(dispatched=[...], complete_at=[index in dispatched order], escaped=str|None, expected=int)"""
    from circuits import BaseComponent, Event, handler
    depth, width, spoil, shape = case['depth'], case['width'], case['spoil'], case['shape']

    class job(Event):
        complete = True

    class step(Event):
        pass

    class leaf(Event):
        pass

    seen = []
    completes = []
    state = {'to_cancel': None}

    class App(BaseComponent):
        channel = 'app'

        @handler('job')
        def _on_job(self, event):
            seen.append(('job', 0))
            if shape == 'fan':
                last = None
                for i in range(width):
                    last = self.fire(leaf(i))
                if spoil == 'cancel-last' and last is not None:
                    last.event.cancel() if hasattr(last, 'event') else None
            else:
                self.fire(step(1))

        @handler('step')
        def _on_step(self, event, n):
            seen.append(('step', n))
            if shape == 'comb':
                for i in range(width):
                    self.fire(leaf(n * 1000 + i))
            if n == (depth + 1) // 2:
                if spoil == 'raise-middle':
                    if n < depth:
                        self.fire(step(n + 1))
                    raise ValueError('spoiled on purpose')
                if spoil == 'stop-middle':
                    event.stop()
            if n < depth:
                v = self.fire(step(n + 1))
                if spoil == 'cancel-last' and n + 1 == depth:
                    v.event.cancel()

        @handler('step', priority=-1)
        def _on_step_low(self, event, n):
            seen.append(('step-low', n))

        @handler('leaf')
        def _on_leaf(self, event, n):
            seen.append(('leaf', n))

        @handler('job_complete')
        def _on_done(self, event, *args):
            completes.append(len(seen))

        @handler('exception')
        def _on_exc(self, *args, **kw):
            pass

    app = App()
    escaped = None
    try:
        app.fire(job())
        n = 0
        while len(app):
            app.flush()
            n += 1
            if n > 4 * (depth + 2) * (width + 2) + 100:
                escaped = 'loop does not drain'
                break
    except BaseException as e:  # noqa: BLE001 - anything leaving flush() is the finding
        escaped = f'{type(e).__name__}'
    # what must have been dispatched before job_complete may fire
    cancelled_last = spoil == 'cancel-last'
    if shape == 'fan':
        want_leaves = width - (1 if cancelled_last and width else 0)
        want_steps = 0
    else:
        want_steps = depth - (1 if cancelled_last and depth >= 2 else 0)
        want_leaves = width * want_steps if shape == 'comb' else 0
    got_steps = len([1 for k, _n in seen if k == 'step'])
    got_leaves = len([1 for k, _n in seen if k == 'leaf'])
    return {'escaped': escaped, 'completes': completes, 'seen': len(seen), 'want_steps': want_steps, 'got_steps': got_steps,
            'want_leaves': want_leaves, 'got_leaves': got_leaves}


def check_shape(ctx, case):
    with ctx.guard(case, what='Manager.flush() over a large causal closure'):
        r = run_shape(case)
    tag = f"{case['shape']},{case['spoil']}"
    size = 'depth>=1000' if case['depth'] >= 1000 else ('width>=1000' if case['width'] >= 1000 else 'small')
    ctx.count('closure_shape', f"{case['shape']}:depth={case['depth']}:width={case['width']}:{case['spoil']}")
    ctx.case(case, nontrivial=case['depth'] + case['width'] > 2)
    if r['escaped']:
        ctx.violate(case, f"loop-died({r['escaped']};{tag};{size})",
                    f"{r['escaped']} left flush() while a closure of {case['shape']} depth {case['depth']} width {case['width']} "
                    f"was draining; job_complete fired {len(r['completes'])} time(s)")
        return
    if r['got_steps'] != r['want_steps'] or r['got_leaves'] != r['want_leaves']:
        ctx.violate(case, f'closure-not-dispatched({tag};{size})',
                    f"dispatched {r['got_steps']} step and {r['got_leaves']} leaf events, expected {r['want_steps']} and {r['want_leaves']}")
        return
    if len(r['completes']) != 1:
        ctx.violate(case, f"{'never-completes' if not r['completes'] else 'complete-twice'}({tag};{size})",
                    f"job_complete fired {len(r['completes'])} times for a closure of depth {case['depth']} width {case['width']}")
    elif r['completes'][0] != r['seen']:
        ctx.violate(case, f'early-complete({tag};{size})',
                    f"job_complete was handled after {r['completes'][0]} of {r['seen']} handler invocations of its closure")

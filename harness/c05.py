"""C05 - see core_mod.SPEC['C05'] (generators, projections) and core_props.oracle_c05 (spec on the implementation)."""
import core_mod


def run(ctx):
    core_mod.run(ctx, 'C05')


def search(ctx):
    core_mod.run(ctx, 'C05')


def replay(ctx, case):
    core_mod.replay(ctx, 'C05', case)

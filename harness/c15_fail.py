"""
C15, failing body iterators and flag results (model CV/Model/HttpRespFail.lean, machine `httprespfail`).

Case:  {'kind': 'fail', 'reqs': [rq, ...]}    one connection
  rq = {'method': GET|HEAD, 'ver': '1.1'|'1.0', 'conn': None|'keep-alive'|'close', 'status': int|None,
        'stream': bool,            response.stream set by the handler (sgen) or not (gen: joined by _on_response)
        'parts': [part, ...],      c15 part encodings; the generator yields them in order
        'k': int|None,             the generator raises when asked for piece k (None: it ends normally)
        'flag': None|True|False|'self'}   the handler returns that bool instead ('self': it fires response(res)
                                          itself for a complete str body and returns True); last request only

B: acts / _clients entry / closed per request against `serve` / `flag` of the model.
C (on the implementation's own acts, for every request whose body object is used and whose iterator raised):
   `cut` = CV.HttpSpec.cutOk - the connection is closed and nothing follows; what was sent after the header block
   is, in the announced framing, a prefix of the application's body (no second status line inside the message);
   no last-chunk; plus: exactly one status line per request, entry released.
"""
from circuits import BaseComponent, handler

from framework import hx


class BodyFailure(Exception):
    pass


def _mk_app():
    from circuits.web.events import response

    class FailApp(BaseComponent):
        channel = 'web'

        def __init__(self):
            super().__init__()
            self.table = {}

        @handler('request', priority=0.5)
        def _on_request(self, event, req, res):
            spec = self.table.get(req.path)
            if spec is None:
                return None
            event.stop()
            if spec['status'] is not None:
                res.status = spec['status']
            res.headers['X-Case'] = spec['tag']
            if spec['flag'] is not None:
                if spec['flag'] == 'self':
                    res.body = 'own answer'
                    self.fire(response(res))
                    return True
                return spec['flag']
            parts, k = spec['parts'], spec['k']

            def g():
                for i, p in enumerate(parts):
                    if k is not None and i == k:
                        raise BodyFailure(f'piece {k}')
                    yield p
                if k is not None and k >= len(parts):
                    raise BodyFailure('at the end')
            res.body = g()
            if spec['stream']:
                res.stream = True
            return res
    return FailApp()


class FailRig:
    def __init__(self):
        from http15util import FakeServer, drain
        self.srv = FakeServer()
        self.app = _mk_app().register(self.srv)
        drain(self.srv)
        self.n = 0

    def run_conn(self, case, c15):
        from circuits.net.events import read
        from http15util import Tok, drain
        self.n += 1
        tok = Tok(self.n)
        srv = self.srv
        out, closed = [], False
        for i, rq in enumerate(case['reqs']):
            if closed:
                out.append({'acts': [], 'stale': tok in srv.http._clients, 'closed': True, 'exc': [], 'skipped': True})
                continue
            path = f'/f{i}'
            self.app.table = {path: {'status': rq.get('status'), 'tag': f't{i}', 'flag': rq.get('flag'),
                                     'parts': [c15.part_value(p) for p in rq['parts']], 'k': rq.get('k'),
                                     'stream': rq['stream']}}
            before = len(srv.wire.get(tok, []))
            nerr = len(srv.errors)
            srv.fire(read(tok, c15.request_bytes(rq, path)), 'web')
            drain(srv)
            acts = list(srv.wire.get(tok, [])[before:])
            closed = any(a[0] == 'c' for a in srv.wire.get(tok, []))
            out.append({'acts': acts, 'stale': tok in srv.http._clients, 'closed': closed, 'exc': srv.errors[nerr:]})
        srv.wire.pop(tok, None)
        srv.http._clients.pop(tok, None)
        srv.http._buffers.pop(tok, None)
        del srv.errors[:]
        del srv.errpages[:]
        return out


def enc_parts(c15, rq):
    return [c15.enc(v) for v in (c15.part_value(p) for p in rq['parts'])]


def touched(rq):
    st = rq.get('status') or 200
    return not (rq['method'] == 'HEAD' or st < 200 or st in (204, 304))


def k_class(rq):
    k, n = rq.get('k'), len(rq['parts'])
    if k is None:
        return 'no-failure'
    return 'before-first-piece' if k == 0 else 'at-the-end' if k >= n else 'mid-body'


def rq_token(rq):
    if rq.get('flag') is not None:
        return f"{rq['method']},{rq['ver']},flag={rq['flag']}"
    return '{},{},{},{}'.format(rq['method'], rq['ver'], 'streamed' if rq['stream'] else 'joined', k_class(rq))


def split_head(acts):
    """-> (chunked, clen, body bytes up to the first close, closed, later, number of status lines)"""
    writes_before, closed, later = [], False, False
    for a in acts:
        if closed:
            later = True
        elif a[0] == 'c':
            closed = True
        else:
            writes_before.append(a[1])
    nstatus = sum(1 for a in acts if a[0] == 'w' and a[1].startswith(b'HTTP/1.'))
    if not writes_before or b'\r\n\r\n' not in writes_before[0]:
        return None
    head, _, tail = writes_before[0].partition(b'\r\n\r\n')
    lines = head.split(b'\r\n')[1:]
    hd = {}
    for ln in lines:
        n, _, v = ln.partition(b':')
        hd.setdefault(n.strip().lower(), v.strip())
    chunked = hd.get(b'transfer-encoding', b'').lower() == b'chunked'
    clen = hd.get(b'content-length')
    return chunked, (int(clen) if clen and clen.isdigit() else None), tail + b''.join(writes_before[1:]), closed, \
        later, nstatus


def classify(rq, ob, later_acts, parsed, produced=b''):
    tok = rq_token(rq)
    if parsed is None:
        return f'failed-body: no header block({tok})'
    chunked, clen, body, closed, later, nstatus = parsed
    if body.count(b'HTTP/1.') > produced.count(b'HTTP/1.'):
        return f'second-status-line-inside-message({tok})'
    if not closed:
        return 'failed-body-connection-kept-open({}{})'.format(tok, ',entry-kept' if ob['stale'] else '')
    if later or later_acts:
        return f'activity-after-abort({tok})'
    if chunked and body.endswith(b'0\r\n\r\n'):
        return f'truncated-chunked-body-terminated({tok})'
    return f'cut-body-not-a-prefix-of-produced({tok})'


def evaluate(ctx, rig, c15, cases):
    ops, obs_all = [], []
    for c in cases:
        with ctx.guard(c, what='c15_fail connection'):
            obs = rig.run_conn(c, c15)
        o = []
        for i, rq in enumerate(c['reqs']):
            if rq.get('flag') is not None and rq['flag'] != 'self':
                o.append('flag')
                continue
            status = rq.get('status') or 200
            reason = c15.Impl.reasons_table.get(status, '')
            if rq.get('flag') == 'self':
                kind, parts, k = 'sized', [b'own answer'], None
            else:
                kind, parts, k = ('stream' if rq['stream'] else 'iter'), enc_parts(c15, rq), rq.get('k')
            o.append('serve {} {} {} {} {} {} 0 {} {} | {}'.format(
                '-' if k is None else k, int(rq['method'] == 'HEAD'), int(rq['ver'] == '1.1'),
                int(c15.keep_alive(rq)), status, hx(reason.encode('latin1')), kind,
                ' '.join([c15.hdr_tok('Date', c15.FIXED_DATE), c15.hdr_tok('X-Case', f't{i}')]),
                ' '.join(hx(p) for p in parts)))
        judged = []
        for i, rq in enumerate(c['reqs']):
            if rq.get('flag') is None and rq.get('k') is not None and touched(rq) and obs[i]['acts']:
                parsed = split_head(obs[i]['acts'])
                later_acts = any(ob['acts'] for ob in obs[i + 1:])
                produced = b''.join(enc_parts(c15, rq))
                if parsed is None:
                    o.append('cut 0 - - 0 1 -')
                else:
                    chunked, clen, body, closed, later, _ = parsed
                    o.append('cut {} {} {} {} {} {}'.format(int(chunked), '-' if clen is None else clen, hx(body),
                                                            int(closed), int(later or later_acts), hx(produced)))
                judged.append((i, parsed, later_acts, produced))
        ops.append(o)
        obs_all.append((obs, judged))
    answers = ctx.driver.batch('httprespfail', ops)
    for c, (obs, judged), ans in zip(cases, obs_all, answers):
        n = len(c['reqs'])
        bad = False
        # ---- C first: the statement on the implementation's own behaviour
        for j, (i, parsed, later_acts, produced) in enumerate(judged):
            rq, ob = c['reqs'][i], obs[i]
            verdict = ans[n + j]
            if verdict != 'ok':
                bad = True
                ctx.violate(c, classify(rq, ob, later_acts, parsed, produced),
                            f'request {i}: the body iterator raised ({k_class(rq)}); the connection shows '
                            f"{c15.act_tokens(ob['acts'])[:400]} entry-kept={ob['stale']} cutOk={verdict}")
                break
            if ob['stale']:
                bad = True
                ctx.violate(c, f'entry-not-released-after-failed-body({rq_token(rq)})',
                            f'request {i}: _clients still holds the pair of the aborted response')
                break
        if not bad:
            for i, rq in enumerate(c['reqs']):
                if rq.get('flag') == 'self' and not obs[i].get('skipped'):
                    ns = sum(1 for a in obs[i]['acts'] if a[0] == 'w' and a[1].startswith(b'HTTP/1.'))
                    if ns != 1:
                        bad = True
                        ctx.violate(c, f'status-lines!=1(handler answers itself and returns True,{rq["ver"]})',
                                    f'request {i}: {ns} status lines: {c15.act_tokens(obs[i]["acts"])[:300]}')
                        break
        # ---- B: correspondence
        if not bad:
            for i, rq in enumerate(c['reqs']):
                ob = obs[i]
                impl_line = '{} | stale={} closed={}'.format(c15.act_tokens(ob['acts']), int(ob['stale']),
                                                             int(ob['closed']))
                if rq.get('flag') == 'self':
                    # the handler's own response(res) is the ordinary response of the model; the pair it leaves is
                    # released by that response
                    pass
                if ans[i].strip() != impl_line.strip():
                    bad = True
                    ctx.disagree(c, {'where': 'httprespfail.' + ('flag' if ans[i].startswith(' |') else 'serve'),
                                     'request': i, 'impl': impl_line[:600], 'model': ans[i][:600]})
                    break
        for i, rq in enumerate(c['reqs']):
            ctx.count('c15_fail_request', rq_token(rq))
            if rq.get('k') is not None and rq.get('flag') is None:
                ctx.count('c15_fail_outcome', ('aborted' if touched(rq) else 'body never touched') + ':' +
                          ('chunked' if rq['ver'] == '1.1' and touched(rq) else 'close-delimited / none'))
            if obs[i]['exc']:
                ctx.count('c15_fail_exception_events', obs[i]['exc'][0].split(':')[0])
        ctx.count('c15_fail_connection_length', n)
        ctx.case(c, nontrivial=any(r.get('k') is not None or r.get('flag') is not None for r in c['reqs']),
                 validated=not bad)


PARTS = [
    [['b', '6161'], ['s', 'bb'], ['b', '63']],
    [['b', ''], ['b', '6161'], ['s', ''], ['b', '6262']],       # empty pieces are skipped
    [['s', 'HTTP/1.1 200 OK\r\n\r\n'], ['b', '300d0a0d0a']],     # pieces that look like protocol text
    [['rb', '78', 5000], ['b', '79']],
    [],
]


def normal_rq(rng, ver=None):
    return {'method': rng.choice(['GET', 'GET', 'HEAD']), 'ver': ver or rng.choice(['1.1', '1.0']),
            'conn': rng.choice([None, 'keep-alive', 'close']), 'status': None, 'stream': rng.random() < 0.5,
            'parts': rng.choice(PARTS), 'k': None, 'flag': None}


def directed_cases(rng):
    cases = []
    for method in ('GET', 'HEAD'):
        for ver, conn in (('1.1', None), ('1.1', 'close'), ('1.0', 'keep-alive'), ('1.0', None)):
            for stream in (True, False):
                for parts in PARTS:
                    for k in sorted({0, 1, len(parts), max(0, len(parts) - 1)}):
                        for status in (None, 204):
                            if status and (k or parts is not PARTS[0]):
                                continue
                            first = {'method': method, 'ver': ver, 'conn': conn, 'status': status, 'stream': stream,
                                     'parts': parts, 'k': k, 'flag': None}
                            cases.append({'kind': 'fail', 'reqs': [first, normal_rq(rng, ver)]})
    for ver, conn in (('1.1', None), ('1.0', 'keep-alive'), ('1.0', None)):
        for flag in (True, False, 'self'):
            for lead in (0, 1):
                reqs = [normal_rq(rng, ver) for _ in range(lead)]
                for r in reqs:
                    r['conn'] = 'keep-alive'
                reqs.append({'method': 'GET', 'ver': ver, 'conn': conn, 'status': None, 'stream': False, 'parts': [],
                             'k': None, 'flag': flag})
                cases.append({'kind': 'fail', 'reqs': reqs})
    return cases


def random_cases(ctx, n):
    rng = ctx.rng
    cases = []
    for _ in range(n):
        reqs = []
        for _ in range(rng.randint(1, 4)):
            rq = normal_rq(rng)
            if rng.random() < 0.8:
                rq['conn'] = rng.choice([None, 'keep-alive'])
            if rng.random() < 0.45:
                nparts = rng.randint(0, 5)
                rq['parts'] = [rng.choice([['b', ''], ['s', ''], ['b', rng.randbytes(rng.randint(1, 40)).hex()],
                                           ['s', 'xé' * rng.randint(1, 9)], ['rb', '7a', rng.choice([4095, 4097, 9000])]])
                               for _ in range(nparts)]
                rq['k'] = rng.randint(0, nparts + 1)
                rq['status'] = rng.choice([None, None, None, 201, 404, 304, 205])
            reqs.append(rq)
        if rng.random() < 0.1:
            reqs.append({'method': 'GET', 'ver': rng.choice(['1.1', '1.0']), 'conn': None, 'status': None,
                         'stream': False, 'parts': [], 'k': None, 'flag': rng.choice([True, False, 'self'])})
        cases.append({'kind': 'fail', 'reqs': reqs})
    return cases


def _prepare(c15):
    impl = c15.Impl()            # masks the clock, reads the reason table
    c15.Impl.reasons_table = impl.reasons
    return FailRig()


def run(ctx, c15):
    rig = _prepare(c15)
    ctx.assumptions.append('C15 failing iterators: the iterator raises an Exception subclass (not BaseException); a handler '
                           'that returns True / False is followed on the connection only by its own answer')
    cases = directed_cases(ctx.rng) + random_cases(ctx, 150 * ctx.scale)
    for i in range(0, len(cases), 200):
        evaluate(ctx, rig, c15, cases[i:i + 200])
        if ctx.time_up():
            return


def replay(ctx, case, c15):
    evaluate(ctx, _prepare(c15), c15, [case])

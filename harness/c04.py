"""C04 - see core_mod.SPEC['C04'] (generators, projections) and core_props.oracle_c04 (spec on the implementation)."""
import core_mod


def run(ctx):
    core_mod.run(ctx, 'C04')


def search(ctx):
    core_mod.run(ctx, 'C04')


def replay(ctx, case):
    core_mod.replay(ctx, 'C04', case)

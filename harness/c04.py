"""C04 - see core_mod.SPEC['C04'] (generators, projections) and core_props.oracle_c04 (spec on the implementation);
nested Values (handlers returning self.fire(..)): c04_values (model CV.VT, machine valuetree)."""
import core_mod
import c04_values


def run(ctx):
    core_mod.run(ctx, 'C04')
    c04_values.run(ctx)


def search(ctx):
    core_mod.run(ctx, 'C04')
    c04_values.run(ctx)


def replay(ctx, case):
    if c04_values.handles(case):
        c04_values.replay(ctx, case)
    else:
        core_mod.replay(ctx, 'C04', case)

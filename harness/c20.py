"""
C20 - Authentication, session binding and gateway trust are sound.

Correspondence (B): the real `check_auth` / `basic_auth` / `digest_auth`, `Sessions.request` +
`MemoryStore`, `VirtualHosts._on_request`  vs.  CV.Model.Auth / Session / VHost.
Spec on impl (C), evaluated by the Lean driver on the implementation's own behaviour:
  auth     `soundOn` (granted => credentials verify against a table entry) and `completeOn`
  authseq  2-3 check_auth/basic_auth/digest_auth calls on ONE request object with different tables /
           realms / encrypt functions: the model (a pure function of header, table, realm, encrypt) and
           the same two predicates are applied to every call on its own; a call whose verdict breaks
           them in the sequence but not on a fresh request -> auth-verdict-depends-on-earlier-call
  authtable  1-3 calls with ONE `users` object of every shape (dict mutated between the calls, dict subclass, callable
           returning a dict, callable taking the user name, callable returning a non-dict, callable that raises, callable
           changing shape from call to call, object that is neither) whose answer changes between the calls (password
           changed / user removed / user added / table broke / repaired), on one request object or on fresh ones: model
           `runCalls` (CV.Model.AuthTable: verdict AND request.login after every call); `soundOnA` / `completeOnA` with the
           answer the table gives DURING that call -> bypass(<shape>-table; ...), stale-table-answer(<what changed>; ...),
           auth-verdict-depends-on-earlier-request(...)
  session  `traceOk` (honoured id => same fingerprint as everybody who used it, contents = what
           was stored under it; otherwise a fresh unique id and an empty session)
  sessionjar  `Sessions(name=...)` for 4 names, requests carrying several cookies (a valid id under another / case-variant /
           longer / shorter name, before and after the configured one): model `stepJ` (CV.Model.SessionCookie: id, contents,
           response.cookie afterwards); `traceOk` with cookie = the value under the CONFIGURED name;
           session-id-from-foreign-cookie(<relation>) when a request that is not honoured is given an id one of its other
           cookies carried; response cookie under the configured name == request.session.sid
  vhost    plain comparison: with a gateway list and a remote address outside it, the path
           after VirtualHosts is the same with and without X-Forwarded-Host
Stdlib leaves (base64, parse_http_list/parse_keqv_list, urljoin, sha1, uuid4) are computed with the
real functions here and handed to the model; md5 is the Lean instantiation, validated against
hashlib by the `md5` cases.

The leaves inside the model (CV.Model.AuthLeaves: a2b_base64, UTF-8 decode/encode, str.strip,
parse_http_list, parse_keqv_list, the RFC 4648 encoder) are compared with the real stdlib functions
  leaf     on a directed stream per leaf + random inputs, and on the parameter part of every
           Authorization value an `auth` case carries (its base64 / kv outcome, the utf-8 outcome of the
           decoded user / password bytes);
and every `auth` / `authseq` call is ALSO evaluated end to end under `concreteLeaves` (`authc` / `specc`:
the driver is handed the header text only, no leaf tables) and compared with the real front ends.
`client` auth cases carry a header produced by the Lean client models (`basicHeader`, `Client.header`):
it must equal the header an independent Python RFC 2617 client builds, and the real `check_auth` must
decide it as the concrete theorems of CV/Props/C20.lean say (accepted iff the table has the password).
"""
import ast
import base64
import binascii
import hashlib
import inspect
import itertools
import random
import textwrap
import uuid as uuidmod
from urllib.parse import urljoin
from urllib.request import parse_http_list, parse_keqv_list

from framework import hx, sx

REQUIRED_SPEC = ['username', 'realm', 'nonce', 'uri', 'response']
ENCS = ['dflt', 'ident', 'hash1', 'hash2']


def md5hex(s):
    return hashlib.md5(s.encode('utf-8')).hexdigest()


ENC_FUN = {
    'dflt': None,
    'ident': str,
    'hash1': lambda p: md5hex(p),
    'hash2': lambda p, u: md5hex(u + ':' + p),
}


def enc_store(enc, user, pw):
    """what the table holds for clear password `pw` under this `encrypt`"""
    if enc == 'hash1':
        return md5hex(pw)
    if enc == 'hash2':
        return md5hex(user + ':' + pw)
    return pw


# ---------------------------------------------------------------------------------------
# request doubles (real Request / Response objects, socket and server are doubles)
# ---------------------------------------------------------------------------------------

class _Sock:
    def __init__(self, ip):
        self.ip = ip

    def getpeername(self):
        return (self.ip, 40000)


class _Server:
    host = '0.0.0.0'
    port = 80
    secure = False
    display_banner = False


def mk_request(headers, ip='10.0.0.1', method='GET', path='/'):
    from circuits.web.headers import Headers
    from circuits.web.wrappers import Request, Response
    rq = Request(_Sock(ip), method, 'http', path, (1, 1), '', Headers(list(headers)), _Server())
    return rq, Response(rq)


def opt(t):
    return '~' if t is None else sx(t)


# ---------------------------------------------------------------------------------------
# auth
# ---------------------------------------------------------------------------------------

def leaves_of(hdr):
    """outcomes of the stdlib leaves on the parameter part of the header"""
    if hdr is None or ' ' not in hdr:
        return '~', '~', None
    params = hdr.split(' ', 1)[1]
    try:
        b = base64.decodebytes(params.encode('utf-8'))
        btok = hx(b)
    except Exception:
        btok = '!'
    kv = None
    try:
        kv = parse_keqv_list(parse_http_list(params))
        ktok = ';'.join(f'{sx(k)},{sx(v)}' for k, v in kv.items()) if kv else '='
    except Exception:
        ktok = '!'
        kv = None
    return btok, ktok, kv


def users_obj(users, form):
    table = dict((u, p) for u, p in users)
    if form == 'callable-dict':
        return lambda: dict(table)
    if form == 'callable-lookup':
        return lambda username: table.get(username)
    return table


def impl_call(rq, rs, front, realm, users, enc):
    """one call of a front end on the given request -> (granted, login_if_True, canonical observation, exception)"""
    from circuits.web import tools
    try:
        if front == 'check':
            r = tools.check_auth(rq, rs, realm, users, enc)
            if r is True:
                obs = 'ok:' + (sx(rq.login) if isinstance(rq.login, str) else '?' + repr(rq.login))
            elif r is False:
                obs = 'refused' if rq.login is False else ('noheader' if rq.login is None else 'false-login:' + repr(rq.login))
            elif r:
                obs = 'errobj'
            else:
                obs = 'falsy:' + type(r).__name__
            granted = bool(r)
        elif front == 'basic':
            r = tools.basic_auth(rq, rs, realm, users, enc)
            obs = 'let' if r is None else ('unauth' if type(r).__name__ == 'unauthorized' else 'other:' + type(r).__name__)
            granted = r is None
        else:
            r = tools.digest_auth(rq, rs, realm, users)
            obs = 'let' if r is None else ('unauth' if type(r).__name__ == 'unauthorized' else 'other:' + type(r).__name__)
            granted = r is None
    except Exception as e:
        return False, None, 'raised', type(e).__name__
    login = rq.login if (granted and isinstance(rq.login, str)) else None
    return granted, login, obs, None


def impl_auth(c, front):
    """a fresh request, one call -> (granted, login_if_True, canonical observation, exception)"""
    hdrs = [] if c['hdr'] is None else [('Authorization', c['hdr'])]
    rq, rs = mk_request(hdrs, method=c['method'])
    return impl_call(rq, rs, front, c['realm'], users_obj(c['users'], c.get('form', 'dict')), ENC_FUN[c['enc']])


def classify_bypass(c):
    """deterministic classifier of a soundness failure, from the case alone"""
    hdr = c['hdr']
    if hdr is None:
        return 'bypass(no-header)'
    if ' ' not in hdr:
        return 'bypass(other)'
    scheme = hdr.split(' ', 1)[0].lower()
    _b, _k, kv = leaves_of(hdr)
    if scheme == 'digest' and kv is not None:
        for f in REQUIRED_SPEC:
            if f not in kv:
                return f'bypass(digest-missing-field:{f})'
        if ('qop' in kv) != ('cnonce' in kv and 'nc' in kv) or ('qop' in kv) != ('cnonce' in kv or 'nc' in kv):
            return 'bypass(digest-qop-inconsistent)'
        table = dict((u, p) for u, p in c['users'])
        if kv['username'] not in table:
            if kv['response'] == rfc_digest(kv['username'], kv.get('realm', ''), 'None', c['method'], kv):
                return 'bypass(unknown-user-None)'
            return 'bypass(unknown-user)'
        return 'bypass(other)'
    if scheme == 'basic':
        return 'bypass(basic)'
    return 'bypass(other)'


def kv_canon(tok):
    """kv token with the items sorted (dict order is not compared)"""
    if tok in ('!', '=', '~'):
        return tok
    return ';'.join(sorted(tok.split(';')))


def header_leaf_ops(hdr):
    """leaf ops on the parameter part of a header -> (ops, expected answers, labels)"""
    if hdr is None or ' ' not in hdr:
        return [], [], []
    params = hdr.split(' ', 1)[1]
    btok, ktok, _kv = leaves_of(hdr)
    ops = [f'leafb64 {sx(params)}', f'kv {sx(params)}']
    want = [btok, kv_canon(ktok)]
    labels = ['hdr.b64', 'hdr.kv']
    if btok != '!':
        raw = base64.decodebytes(params.encode('utf-8'))
        for piece in raw.split(b':', 1):
            ops.append(f'utf8dec {hx(piece)}')
            want.append(py_utf8dec(piece))
            labels.append('hdr.utf8')
    return ops, want, labels


def py_utf8dec(b):
    try:
        return ' '.join(['cp'] + [str(ord(ch)) for ch in b.decode('utf-8')])
    except UnicodeDecodeError:
        return '!'


def esc_q(v):
    return v.replace('\\', '\\\\').replace('"', '\\"')


def py_client_header(cl):
    """the header an RFC 2617 client sends, written here independently of the Lean client model"""
    if cl['scheme'] == 'basic':
        return 'Basic ' + base64.b64encode((cl['user'] + ':' + cl['pass']).encode('utf-8')).decode('ascii')
    f = {'username': cl['user'], 'realm': cl['realm'], 'nonce': cl['nonce'], 'uri': cl['uri']}
    if cl['alg'] is not None:
        f['algorithm'] = 'MD5-sess' if cl['alg'] else 'MD5'
    if cl['qop'] is not None:
        f['qop'] = 'auth'
        f['nc'], f['cnonce'] = cl['qop']
    resp = rfc_digest(cl['user'], cl['realm'], cl['password'], cl['method'], f)
    parts = [f'username="{esc_q(cl["user"])}"', f'realm="{esc_q(cl["realm"])}"', f'nonce="{esc_q(cl["nonce"])}"',
             f'uri="{esc_q(cl["uri"])}"']
    if cl['alg'] is not None:
        parts.append('algorithm=' + f['algorithm'])
    parts.append(f'response="{resp}"')
    if cl['qop'] is not None:
        parts += ['qop=auth', 'nc=' + cl['qop'][0], f'cnonce="{esc_q(cl["qop"][1])}"']
    return 'Digest ' + ', '.join(parts)


def client_op(cl):
    if cl['scheme'] == 'basic':
        return f"basichdr {sx(cl['user'])} {sx(cl['pass'])}"
    alg = '~' if cl['alg'] is None else ('1' if cl['alg'] else '0')
    qop = '~' if cl['qop'] is None else f"{sx(cl['qop'][0])},{sx(cl['qop'][1])}"
    return (f"clienthdr {sx(cl['user'])} {sx(cl['realm'])} {sx(cl['nonce'])} {sx(cl['uri'])} {alg} {qop} "
            f"{sx(cl['password'])} {sx(cl['method'])}")


def client_expect(c):
    """what C20.basic_concrete / C20.digest_concrete say about `check_auth` on this case; None = outside
    their hypotheses"""
    cl = c['client']
    table = dict((u, p) for u, p in c['users'])
    if cl['scheme'] == 'basic':
        if ':' in cl['user'] or c['enc'] == 'dflt':
            return None
        return table.get(cl['user']) == enc_store(c['enc'], cl['user'], cl['pass'])
    if cl['method'] != c['method']:
        return None
    return table.get(cl['user']) == cl['password'] and cl['realm'] == c['realm']


def eval_auth(ctx, cases):
    ops, impl, extra = [], [], []
    for c in cases:
        btok, ktok, _kv = leaves_of(c['hdr'])
        users = ' '.join(f'{sx(u)},{sx(p)}' for u, p in c['users'])
        base = f"{sx(c['realm'])} {sx(c['method'])} {opt(c['hdr'])} {btok} {ktok}"
        cbase = f"{sx(c['realm'])} {sx(c['method'])} {opt(c['hdr'])}"
        o = [f"auth current {c['enc']} {base} {users}".rstrip()]
        rec = {}
        for front in ('check', 'basic', 'digest'):
            granted, login, obs, exc = impl_auth(c, front)
            rec[front] = (granted, login, obs, exc)
            enc = 'dflt' if front == 'digest' else c['enc']
            o.append(f"spec {enc} {base} {1 if granted else 0} {opt(login)} {users}".rstrip())
        # the same under concreteLeaves: header text only
        o.append(f"authc current {c['enc']} {cbase} {users}".rstrip())
        for front in ('check', 'basic', 'digest'):
            granted, login, _obs, _exc = rec[front]
            enc = 'dflt' if front == 'digest' else c['enc']
            o.append(f"specc {enc} {cbase} {1 if granted else 0} {opt(login)} {users}".rstrip())
        lops, lwant, llabels = header_leaf_ops(c['hdr'])
        o += lops
        if 'client' in c:
            o.append(client_op(c['client']))
        ops.append(o)
        impl.append(rec)
        extra.append((lwant, llabels))
    answers = ctx.driver.batch('auth', ops)
    for c, rec, ans, (lwant, llabels) in zip(cases, impl, answers, extra):
        ok = True
        if any(a == 'bad-op' for a in ans):
            raise RuntimeError(f'driver rejected an auth op for case {c!r}: {ans!r}')
        model = dict(p.split('=', 1) for p in ans[0].split(' '))
        cmodel = dict(p.split('=', 1) for p in ans[4].split(' '))
        for i, front in enumerate(('check', 'basic', 'digest')):
            granted, login, obs, exc = rec[front]
            if model[front] != obs:
                ok = False
                ctx.disagree(c, {'where': f'auth.{front}', 'impl': obs + (f' ({exc})' if exc else ''), 'model': model[front]})
            if cmodel[front] != obs:
                ok = False
                ctx.disagree(c, {'where': f'auth.concrete.{front}', 'impl': obs + (f' ({exc})' if exc else ''),
                                 'model': cmodel[front], 'note': 'model under concreteLeaves (header text only)'})
            for a, how in ((ans[1 + i], 'leaf tables'), (ans[5 + i], 'concreteLeaves')):
                if a == 'fail bypass':
                    ctx.violate(c, classify_bypass(c),
                                f'{front}{"_auth" if front != "check" else "_auth (check_auth)"} granted access to Authorization={c["hdr"]!r} '
                                f'although no entry of users={c["users"]!r} (realm {c["realm"]!r}) verifies it')
                    break
                if a.startswith('fail'):
                    ctx.violate(c, 'valid-credentials-refused',
                                f'{front}: well-formed credentials {c["hdr"]!r} verifying against users={c["users"]!r} '
                                f'were not accepted (observed {obs})')
                    break
            if exc:
                ctx.count('auth_exception', exc)
        # the leaves on this header's parameter part
        for a, w, lab in zip(ans[8:8 + len(lwant)], lwant, llabels):
            got = kv_canon(a) if lab == 'hdr.kv' else a
            ctx.count('leaf_on_header', f"{lab}:{'raises' if w == '!' else 'value'}")
            if got != w:
                ok = False
                ctx.disagree(c, {'where': f'leaf.{lab}', 'impl': w, 'model': got})
        if 'client' in c:
            cl = c['client']
            lean_hdr = ans[-1] if ans[-1] == 'notok' else ('' if ans[-1] == '-' else bytes.fromhex(ans[-1]).decode('utf-8'))
            py_hdr = py_client_header(cl)
            if lean_hdr != py_hdr or c['hdr'] != py_hdr:
                ok = False
                ctx.disagree(c, {'where': f"client.{cl['scheme']}.header", 'impl': py_hdr, 'model': lean_hdr, 'case-hdr': c['hdr']})
            exp = client_expect(c)
            ctx.count('client_expectation', f"{cl['scheme']}:" + ('outside-hypotheses' if exp is None else ('accept' if exp else 'refuse')))
            if exp is not None:
                want = 'ok:' + sx(cl['user']) if exp else None
                obs = rec['check'][2]
                if (obs == want) != exp or (not exp and obs.startswith('ok:')):
                    ok = False
                    ctx.disagree(c, {'where': f"client.{cl['scheme']}.concrete-theorem", 'impl': obs,
                                     'model': want or 'not ok', 'note': 'prediction of C20.basic_concrete / digest_concrete'})
        ctx.count('auth_outcome', rec['check'][2].split(':')[0])
        ctx.count('auth_tag', c.get('tag', '?'))
        ctx.count('auth_enc', c['enc'])
        ctx.case(c, nontrivial=c['hdr'] is not None, validated=ok)


def rfc_digest(u, realm, pw, method, f):
    """RFC 2617 request-digest, written from the RFC (generator side)"""
    a1 = f'{u}:{realm}:{pw}'
    if f.get('algorithm') == 'MD5-sess':
        a1 = f"{md5hex(a1)}:{f.get('nonce', '')}:{f.get('cnonce', '')}"
    ha2 = md5hex(f"{method}:{f.get('uri', '')}")
    if 'qop' in f:
        data = f"{f.get('nonce', '')}:{f.get('nc', '')}:{f.get('cnonce', '')}:{f['qop']}:{ha2}"
    else:
        data = f"{f.get('nonce', '')}:{ha2}"
    return md5hex(md5hex(a1) + ':' + data)


def render_digest(rng, fields, scheme='Digest', sep=', ', quote=None):
    parts = []
    for k, v in fields:
        q = quote if quote is not None else (rng.random() < (0.8 if v else 0.95))
        parts.append(f'{k}="{v}"' if q else f'{k}={v}')
    return scheme + ' ' + sep.join(parts)


USERS = ['alice', 'bob', 'admin', 'None', 'ü', 'a b', 'x']
PWS = ['secret', 'admin', 'None', 'pä', 'a:b', '', 'p w']
REALMS = ['Test', 'R', 'my realm', 'other']
METHODS = ['GET', 'POST', 'HEAD']
UNKNOWN = ['mallory', 'eve', 'None', 'Alice', '']


def gen_table(rng, enc):
    n = rng.choice([0, 1, 1, 2, 2, 3])
    names = rng.sample(USERS, n)
    clear = {u: rng.choice(PWS) for u in names}
    return clear, [[u, enc_store(enc, u, p)] for u, p in clear.items()]


def b64(s):
    return base64.b64encode(s if isinstance(s, bytes) else s.encode('utf-8')).decode('ascii')


def gen_basic(rng, clear, users):
    """-> (header, tag)"""
    r = rng.random()
    scheme = rng.choice(['Basic', 'Basic', 'basic', 'BASIC', 'bAsIc'])
    known = list(clear)
    if r < 0.30 and known:
        u = rng.choice(known)
        return f'{scheme} {b64(u + ":" + clear[u])}', 'basic-valid'
    if r < 0.45 and known:
        u = rng.choice(known)
        return f'{scheme} {b64(u + ":" + rng.choice(PWS + ["wrong"]))}', 'basic-wrong-pw'
    if r < 0.60:
        u = rng.choice(UNKNOWN)
        pw = rng.choice(['None', 'x', '', md5hex('None')] + ([rng.choice(list(clear.values()))] if clear else []))
        return f'{scheme} {b64(u + ":" + pw)}', 'basic-unknown-user'
    if r < 0.66 and known:
        # stored (encrypted) value sent as the password
        u = rng.choice(known)
        return f'{scheme} {b64(u + ":" + dict(map(tuple, users))[u])}', 'basic-stored-value'
    if r < 0.72:
        return f'{scheme} {b64(rng.choice(known + UNKNOWN))}', 'basic-no-colon'
    if r < 0.78:
        good = b64((rng.choice(known) if known else 'u') + ':secret')
        return f'{scheme} {good.rstrip("=")[:-1] if rng.random() < 0.5 else good + "="}', 'basic-bad-base64'
    if r < 0.84:
        raw = rng.choice([b'\xff\xfe:pw', b'user:\xc3', b'\xed\xa0\x80:x', b'\xc0\xaf:x', b'u:\xf5\x80\x80\x80'])
        return f'{scheme} {b64(raw)}', 'basic-bad-utf8'
    if r < 0.90 and known:
        u = rng.choice(known)
        good = b64(u + ':' + clear[u])
        k = rng.randrange(len(good) + 1)
        return f'{scheme} {good[:k]}{rng.choice([" ", "!", chr(10), "*", "-"])}{good[k:]}', 'basic-noise-in-base64'
    if r < 0.95:
        return rng.choice([scheme, scheme + ' ', scheme + '\t' + b64('a:b'), scheme + '  ' + b64('alice:secret'), '']), 'basic-degenerate'
    return f'{scheme} {b64(":")}', 'basic-empty-user'


def gen_digest(rng, clear, realm, method):
    known = list(clear)
    f = {}
    r = rng.random()
    if known and r < 0.7:
        u = rng.choice(known)
        tag_user = 'known'
    else:
        u = rng.choice(UNKNOWN)
        tag_user = 'unknown' if u not in clear else 'known'
    f['username'] = u
    f['realm'] = realm if rng.random() < 0.85 else rng.choice(REALMS + [''])
    f['nonce'] = rng.choice(['abc123', 'n', '', md5hex(str(rng.random()))])
    f['uri'] = rng.choice(['/', '/secret', '/a?b=c', ''])
    q = rng.random()
    if q < 0.4:
        pass
    elif q < 0.8:
        f['qop'] = 'auth'
    elif q < 0.9:
        f['qop'] = 'auth-int'
    else:
        f['qop'] = rng.choice(['foo', '', 'AUTH'])
    if 'qop' in f:
        f['nc'] = rng.choice(['00000001', '1', ''])
        f['cnonce'] = rng.choice(['xyz', 'c', ''])
    if rng.random() < 0.15:
        # inconsistent qop / nc / cnonce
        for k in rng.sample(['qop', 'nc', 'cnonce'], rng.randint(1, 2)):
            if k in f:
                del f[k]
            else:
                f[k] = {'qop': 'auth', 'nc': '00000001', 'cnonce': 'xyz'}[k]
    a = rng.random()
    if a < 0.5:
        pass
    elif a < 0.7:
        f['algorithm'] = 'MD5'
    elif a < 0.85:
        f['algorithm'] = 'MD5-sess'
    else:
        f['algorithm'] = rng.choice(['SHA1', 'md5', 'X', ''])
    # the response
    p = rng.random()
    pw_tag = 'right'
    if u in clear and p < 0.6:
        pw = clear[u]
    elif p < 0.8:
        pw = 'None'
        pw_tag = 'None'
    elif clear and p < 0.9:
        pw = rng.choice(list(clear.values()))
        pw_tag = 'other-users-pw'
    else:
        pw = 'wrong'
        pw_tag = 'wrong'
    meth = method if rng.random() < 0.9 else rng.choice(METHODS)
    f['response'] = rfc_digest(u, f['realm'], pw, meth, f)
    m = rng.random()
    if m < 0.04:
        f['response'] = f['response'].upper()
    elif m < 0.08:
        f['response'] = rng.choice(['', 'None', f['response'][:-1], '0' * 32])
    items = list(f.items())
    tag = f'digest-{tag_user}-{pw_tag}'
    d = rng.random()
    if d < 0.18:
        drop = rng.choice(REQUIRED_SPEC)
        items = [(k, v) for k, v in items if k != drop]
        tag = f'digest-missing-{drop}'
    elif d < 0.22:
        items.append(('auth_scheme', 'digest'))
        tag = 'digest-auth_scheme-key'
    elif d < 0.26:
        items.append(('opaque', 'zz'))
    elif d < 0.30:
        items.insert(rng.randrange(len(items) + 1), ('username', rng.choice(known + UNKNOWN)))
        tag = 'digest-duplicate-username'
    if rng.random() < 0.5:
        rng.shuffle(items)
    hdr = render_digest(rng, items, scheme=rng.choice(['Digest', 'Digest', 'digest', 'DIGEST']),
                        sep=rng.choice([', ', ',', ' , ']))
    x = rng.random()
    if x < 0.03:
        hdr += rng.choice([', junk', ', k=', ',', ', =v', ' '])
        tag = 'digest-malformed-piece'
    return hdr, tag


FIXED_HEADERS = [
    '', ' ', 'Basic', 'Digest', 'Bearer abc', 'Negotiate xyz', 'NTLM ', 'bas\u0131c YTpi', 'ba\u017fic YTpi',
    'Basi\u212a YTpi', 'D\u0130GEST username="a"', 'Basic\tYTpi', 'Basic\u00a0YTpi', ' Basic YTpi', 'Digest ',
    'Digest username', 'Digest username=', 'Digest =', 'Digest ,', 'Digest username="alice"',
    'Digest username="alice", realm="Test"', 'Basic ', 'Basic =', 'Basic Og==', 'Basic YTpiOmM=',
    'digest response=""', 'Digest realm=Test', 'Unknown', 'basic digest', 'Digest Basic',
]


def auth_cases(ctx):
    rng = ctx.rng
    cases = []

    def add(enc, realm, method, users, hdr, tag, form='dict'):
        cases.append({'kind': 'auth', 'enc': enc, 'realm': realm, 'method': method, 'users': users,
                      'hdr': hdr, 'tag': tag, 'form': form})

    # --- systematic part (the same on every seed) ------------------------------------
    table = {'alice': 'secret', 'bob': 'admin'}
    for enc in ENCS:
        users = [[u, enc_store(enc, u, p)] for u, p in table.items()]
        add(enc, 'Test', 'GET', users, None, 'no-header')
        for h in FIXED_HEADERS:
            add(enc, 'Test', 'GET', users, h, 'fixed')
        for u, p in [('alice', 'secret'), ('alice', 'admin'), ('mallory', 'secret'), ('mallory', 'None'), ('bob', 'admin')]:
            add(enc, 'Test', 'GET', users, 'Basic ' + b64(f'{u}:{p}'), 'basic-systematic')
    users = [[u, p] for u, p in table.items()]
    for user, pw in [('alice', 'secret'), ('alice', 'wrong'), ('mallory', 'None'), ('mallory', 'x'), ('bob', 'None')]:
        for qop in (None, 'auth', 'auth-int'):
            for alg in (None, 'MD5', 'MD5-sess', 'SHA1'):
                for hrealm in ('Test', 'Other'):
                    f = {'username': user, 'realm': hrealm, 'nonce': 'n0', 'uri': '/p'}
                    if qop:
                        f.update(qop=qop, nc='00000001', cnonce='cn')
                    if alg:
                        f['algorithm'] = alg
                    f['response'] = rfc_digest(user, hrealm, pw, 'GET', f)
                    items = list(f.items())
                    add('dflt', 'Test', 'GET', users, render_digest(rng, items, quote=True), f'digest-sys-{user}-{pw}')
                    if hrealm == 'Test' and alg in (None, 'MD5'):
                        for drop in [k for k, _ in items]:
                            add('dflt', 'Test', 'GET', users,
                                render_digest(rng, [(k, v) for k, v in items if k != drop], quote=True),
                                f'digest-missing-{drop}')
    # empty table, one user whose password is the text None
    for tbl in ([], [['None', 'None']], [['mallory', 'None']]):
        f = {'username': 'mallory', 'realm': 'Test', 'nonce': 'n', 'uri': '/'}
        f['response'] = rfc_digest('mallory', 'Test', 'None', 'GET', f)
        add('dflt', 'Test', 'GET', tbl, render_digest(rng, list(f.items()), quote=True), 'digest-None-table-variants')

    # --- random part -----------------------------------------------------------------
    for _ in range(2500 * ctx.scale * (3 if ctx.tier == 'thorough' and not ctx.searching else 1)):
        enc = rng.choice(ENCS)
        realm = rng.choice(REALMS + (['q"r'] if rng.random() < 0.05 else []))
        method = rng.choice(METHODS)
        clear, users = gen_table(rng, enc)
        form = rng.choice(['dict', 'dict', 'callable-dict', 'callable-lookup'])
        k = rng.random()
        if k < 0.4:
            hdr, tag = gen_basic(rng, clear, users)
        elif k < 0.97:
            if rng.random() < 0.8:
                # digest tables hold clear passwords
                users = [[u, p] for u, p in clear.items()]
            hdr, tag = gen_digest(rng, clear, realm, method)
        else:
            hdr, tag = rng.choice(FIXED_HEADERS), 'fixed'
        add(enc, realm, method, users, hdr, tag, form)
    return cases


# ---------------------------------------------------------------------------------------
# several checks on ONE request object (no state may leak from one call into the next)
# ---------------------------------------------------------------------------------------
#
# The statement makes the verdict of a check a function of the request's credentials and of the
# table / realm (and encrypt) *configured for that check*.  An application may check one request
# several times with different configurations (site-wide filter, then a stricter controller), so
# every call of a sequence is judged on its own: model and spec predicates get exactly the
# arguments of that call and nothing of the calls before it.

SEQ_CLAUSE = 'auth-verdict-depends-on-earlier-call'


def call_view(c, call):
    """the single-check case that call `call` of sequence `c` is, taken on its own"""
    return {'kind': 'auth', 'enc': call['enc'], 'realm': call['realm'], 'method': c['method'],
            'users': call['users'], 'hdr': c['hdr'], 'form': call.get('form', 'dict'), 'tag': 'seq-call'}


def impl_seq(c, calls):
    """run `calls` one after the other on one and the same request object"""
    hdrs = [] if c['hdr'] is None else [('Authorization', c['hdr'])]
    rq, rs = mk_request(hdrs, method=c['method'])
    out = []
    for call in calls:
        out.append(impl_call(rq, rs, call['front'], call['realm'],
                             users_obj(call['users'], call.get('form', 'dict')), ENC_FUN[call['enc']]))
    return out


def seq_differing(a, b):
    d = []
    if dict(map(tuple, a['users'])) != dict(map(tuple, b['users'])):
        d.append('table')
    if a['realm'] != b['realm']:
        d.append('realm')
    if a['enc'] != b['enc']:
        d.append('encrypt')
    if a['front'] != b['front']:
        d.append('front-end')
    return d


def seq_letter(model_obs):
    if model_obs.startswith('ok:') or model_obs == 'let':
        return 'G'
    if model_obs == 'raised':
        return 'X'
    if model_obs == 'errobj':
        return 'E'
    return 'R'


def seq_minimise(c, k, bad):
    """smallest sub-sequence ending in call k in which call k still shows the verdict `bad`"""
    calls = c['calls']
    for j in range(k):
        try:
            r = impl_seq(c, [calls[j], calls[k]])[-1]
        except Exception:  # noqa: BLE001
            continue
        if (r[0], r[1]) == bad:
            return dict(c, calls=[calls[j], calls[k]]), [j]
    return dict(c, calls=calls[:k + 1]), list(range(k))


def eval_authseq(ctx, cases):
    ops, impl = [], []
    for c in cases:
        btok, ktok, _kv = leaves_of(c['hdr'])
        rec = impl_seq(c, c['calls'])
        o = []
        for call, (granted, login, _obs, _exc) in zip(c['calls'], rec):
            users = ' '.join(f'{sx(u)},{sx(p)}' for u, p in call['users'])
            base = f"{sx(call['realm'])} {sx(c['method'])} {opt(c['hdr'])} {btok} {ktok}"
            senc = 'dflt' if call['front'] == 'digest' else call['enc']
            o.append(f"auth current {call['enc']} {base} {users}".rstrip())
            o.append(f"spec {senc} {base} {1 if granted else 0} {opt(login)} {users}".rstrip())
            cbase = f"{sx(call['realm'])} {sx(c['method'])} {opt(c['hdr'])}"
            o.append(f"authc current {call['enc']} {cbase} {users}".rstrip())
            o.append(f"specc {senc} {cbase} {1 if granted else 0} {opt(login)} {users}".rstrip())
        ops.append(o)
        impl.append(rec)
    answers = ctx.driver.batch('auth', ops)
    for c, rec, ans in zip(cases, impl, answers):
        if any(a == 'bad-op' for a in ans):
            raise RuntimeError(f'driver rejected an auth op for sequence {c!r}')
        ok = True
        letters = []
        reported = False
        for k, (call, (granted, login, obs, exc)) in enumerate(zip(c['calls'], rec)):
            model = dict(p.split('=', 1) for p in ans[4 * k].split(' '))[call['front']]
            cmodel = dict(p.split('=', 1) for p in ans[4 * k + 2].split(' '))[call['front']]
            letters.append(seq_letter(model))
            if model != obs:
                ok = False
                ctx.disagree(c, {'where': f"authseq.call{k}.{call['front']}", 'impl': obs + (f' ({exc})' if exc else ''),
                                 'model': model, 'note': 'model applied to this call alone'})
            if cmodel != obs:
                ok = False
                ctx.disagree(c, {'where': f"authseq.concrete.call{k}.{call['front']}", 'impl': obs + (f' ({exc})' if exc else ''),
                                 'model': cmodel, 'note': 'model under concreteLeaves applied to this call alone'})
            a = ans[4 * k + 1]
            if not a.startswith('fail') and ans[4 * k + 3].startswith('fail'):
                a = ans[4 * k + 3]
            if exc:
                ctx.count('auth_exception', exc)
            if not a.startswith('fail') or reported:
                continue
            reported = True
            view = call_view(c, call)
            fresh = impl_auth(view, call['front'])
            if (fresh[0], fresh[1]) == (granted, login):
                # the same call on a fresh request gives the same wrong verdict: not a matter of history
                if a == 'fail bypass':
                    ctx.violate(view, classify_bypass(view),
                                f"{call['front']}: granted access to Authorization={c['hdr']!r} although no entry of "
                                f"users={call['users']!r} (realm {call['realm']!r}) verifies it")
                else:
                    ctx.violate(view, 'valid-credentials-refused',
                                f"{call['front']}: well-formed credentials {c['hdr']!r} verifying against "
                                f"users={call['users']!r} were not accepted (observed {obs})")
                continue
            small, earlier = seq_minimise(c, k, (granted, login))
            verdict = 'granted' if granted and not fresh[0] else ('refused' if fresh[0] and not granted else 'login-differs')
            if not earlier:
                # first call of its sequence, yet a fresh request is judged differently: state outside the request object
                ctx.violate(small, f'auth-verdict-depends-on-earlier-request({verdict})',
                            f"{call['front']}(realm={call['realm']!r}, users={call['users']!r}, encrypt={call['enc']}) on a new request with "
                            f"Authorization={c['hdr']!r} answered {obs!r} (granted={granted}, login={login!r}); the same call repeated on "
                            f"another new request answers {fresh[2]!r} (granted={fresh[0]}): the verdict depends on requests handled "
                            f"before; spec clause broken: {a[5:]}")
                continue
            before = 'grant' if any(rec[j][0] for j in earlier) else 'refusal'
            prev = c['calls'][earlier[-1]]
            diff = '+'.join(seq_differing(prev, call)) or 'nothing'
            pname = {'check': 'check_auth', 'basic': 'basic_auth', 'digest': 'digest_auth'}
            ctx.violate(small, f'{SEQ_CLAUSE}({verdict}-after-{before})',
                        f"{pname[call['front']]}(realm={call['realm']!r}, users={call['users']!r}, encrypt={call['enc']}) on a request "
                        f"with Authorization={c['hdr']!r} answered {obs!r} (granted={granted}, login={login!r}) after "
                        f"{pname[prev['front']]}(realm={prev['realm']!r}, users={prev['users']!r}, encrypt={prev['enc']}) had answered "
                        f"{rec[earlier[-1]][2]!r} on the same request object; the same call on a fresh request answers {fresh[2]!r} "
                        f"(granted={fresh[0]}) - the verdict must depend only on the credentials and on the table/realm/encrypt of "
                        f"this call (differing from the earlier call: {diff}); spec clause broken in the sequence: {a[5:]}")
        n = len(c['calls'])
        ctx.count('authseq_calls', n)
        ctx.count('authseq_expected', '>'.join(letters))
        ctx.count('authseq_tag', c.get('tag', '?'))
        for x, y in zip(c['calls'], c['calls'][1:]):
            ctx.count('authseq_differing', '+'.join(seq_differing(x, y)) or 'same-configuration')
        ctx.count('authseq_fronts', '>'.join(call['front'] for call in c['calls']))
        ctx.case(c, nontrivial=c['hdr'] is not None and n > 1, validated=ok)


def seq_header_digest(user, pw, realm, method, qop):
    f = {'username': user, 'realm': realm, 'nonce': 'n0', 'uri': '/admin'}
    if qop:
        f.update(qop=qop, nc='00000001', cnonce='cn')
    f['response'] = rfc_digest(user, realm, pw, method, f)
    return render_digest(None, list(f.items()), quote=True)


def authseq_directed():
    """the same on every seed and in both tiers"""
    rnd = random.Random(0xC20)
    cases = []
    clear = {'site': {'alice': 'wonder', 'root': 's3cret'}, 'admin': {'root': 's3cret'},
             'changed': {'alice': 'changed', 'root': 's3cret'}, 'empty': {}}

    def stored(name, enc):
        return [[u, enc_store(enc, u, p)] for u, p in clear[name].items()]

    # (table, what the table holds, encrypt handed to the call, realm)
    basic_cfg = [(t, e, e, r) for t, r in (('site', 'Site'), ('admin', 'Admin'), ('changed', 'Site'), ('empty', 'Admin'))
                 for e in ('ident', 'hash1')]
    basic_cfg += [('site', 'hash1', 'ident', 'Site'), ('site', 'ident', 'hash2', 'Admin')]
    digest_cfg = [(t, 'ident', 'dflt', r) for t in ('site', 'admin', 'changed', 'empty') for r in ('Site', 'Admin')]
    fronts = ('check', 'basic', 'digest')

    def mk(cfg, front):
        t, se, ce, r = cfg
        return {'front': front, 'enc': ce, 'realm': r, 'users': stored(t, se), 'form': 'dict'}

    groups = [
        (basic_cfg, [('GET', 'Basic ' + b64('alice:wonder')), ('POST', 'Basic ' + b64('root:s3cret')),
                     ('GET', 'Basic ' + b64('mallory:x'))]),
        (digest_cfg, [('GET', seq_header_digest('alice', 'wonder', 'Site', 'GET', None)),
                      ('POST', seq_header_digest('alice', 'wonder', 'Site', 'POST', 'auth')),
                      ('GET', seq_header_digest('root', 's3cret', 'Admin', 'GET', 'auth')),
                      ('GET', seq_header_digest('mallory', 'None', 'Site', 'GET', None))]),
    ]
    for cfgs, hdrs in groups:
        for method, hdr in hdrs:
            # every ordered pair of configurations (incl. the same one twice) x every pair of front ends
            for f1, f2 in itertools.product(fronts, fronts):
                for c1, c2 in itertools.product(cfgs, cfgs):
                    cases.append({'kind': 'authseq', 'method': method, 'hdr': hdr, 'tag': 'directed-pair',
                                  'calls': [mk(c1, f1), mk(c2, f2)]})
            # triples (fixed sample)
            for _ in range(120):
                cases.append({'kind': 'authseq', 'method': method, 'hdr': hdr, 'tag': 'directed-triple',
                              'calls': [mk(rnd.choice(cfgs), rnd.choice(fronts)) for _ in range(3)]})
    # without / with a degenerate Authorization header nothing is ever granted, whatever came before
    for hdr in (None, 'Basic', 'Digest username="alice"', 'Bearer abc', ''):
        for c1, c2 in itertools.product(basic_cfg[:4] + digest_cfg[:2], repeat=2):
            f1, f2 = rnd.choice(fronts), rnd.choice(fronts)
            cases.append({'kind': 'authseq', 'method': 'GET', 'hdr': hdr, 'tag': 'directed-degenerate',
                          'calls': [mk(c1, f1), mk(c2, f2)]})
    return cases


def authseq_random(ctx):
    rng = ctx.rng
    cases = []
    for _ in range(700 * ctx.scale):
        enc = rng.choice(ENCS)
        realm = rng.choice(REALMS)
        method = rng.choice(METHODS)
        clear, users = gen_table(rng, enc)
        k = rng.random()
        digest = False
        if k < 0.45:
            hdr, tag = gen_basic(rng, clear, users)
        elif k < 0.95:
            digest = True
            hdr, tag = gen_digest(rng, clear, realm, method)
        else:
            hdr, tag = rng.choice(FIXED_HEADERS + [None]), 'fixed'
        calls = []
        for _i in range(rng.choice([2, 2, 3])):
            # a variation of the configuration the header was made for
            cl = dict(clear)
            m = rng.random()
            if m < 0.30:
                pass
            elif m < 0.50 and cl:
                del cl[rng.choice(sorted(cl))]
            elif m < 0.65 and cl:
                cl[rng.choice(sorted(cl))] = rng.choice(PWS + ['changed'])
            elif m < 0.80:
                cl[rng.choice(USERS + UNKNOWN)] = rng.choice(PWS)
            elif m < 0.90:
                cl = {}
            else:
                cl = {u: rng.choice(PWS) for u in rng.sample(USERS, rng.randint(1, 3))}
            e_call = enc if rng.random() < 0.6 else rng.choice(ENCS)
            e_store = e_call if rng.random() < 0.85 else rng.choice(ENCS)
            if digest and rng.random() < 0.8:
                e_store = 'ident'            # digest tables hold clear passwords
            r_call = realm if rng.random() < 0.6 else rng.choice(REALMS)
            calls.append({'front': rng.choice(['check', 'check', 'basic', 'digest']), 'enc': e_call, 'realm': r_call,
                          'users': [[u, enc_store(e_store, u, p)] for u, p in cl.items()],
                          'form': rng.choice(['dict', 'dict', 'callable-dict', 'callable-lookup'])})
        cases.append({'kind': 'authseq', 'method': method, 'hdr': hdr, 'tag': 'random:' + tag, 'calls': calls})
    return cases


def authseq_cases(ctx):
    return authseq_directed() + authseq_random(ctx)


# ---------------------------------------------------------------------------------------
# headers made by the Lean client models (concrete soundness / completeness on the real code)
# ---------------------------------------------------------------------------------------

CL_USERS = ['alice', 'bob', 'ü', 'a b', 'x', '', 'al"ice', 'back\\slash', 'co,mma', 'Ωmega ', 'a:b', '\U0001f600']
CL_PWS = ['secret', 'pä', 'a:b', '', 'p w', ':', 'q"uote', '\\', 'pw,=', '€\U00010000', 'None']
CL_TOK = ['00000001', '1', 'ff', 'a=b', 'x\\y']


def client_cases(ctx):
    rng = ctx.rng
    cases = []
    for _ in range(400 * ctx.scale):
        enc = rng.choice(ENCS)
        realm = rng.choice(REALMS + ['r"q', 'a, b', 'ü\\'])
        method = rng.choice(METHODS)
        n = rng.choice([0, 1, 2, 3])
        names = rng.sample(CL_USERS, n)
        clear = {u: rng.choice(CL_PWS) for u in names}
        if rng.random() < 0.5:
            user = rng.choice(names) if names else rng.choice(CL_USERS)
        else:
            user = rng.choice(CL_USERS)
        right = user in clear and rng.random() < 0.6
        pw = clear[user] if right else rng.choice(CL_PWS + ['wrong'])
        if rng.random() < 0.45:
            users = [[u, enc_store(enc, u, p)] for u, p in clear.items()]
            cl = {'scheme': 'basic', 'user': user, 'pass': pw}
            tag = 'client-basic'
        else:
            enc = 'dflt' if rng.random() < 0.7 else enc
            users = [[u, p] for u, p in clear.items()]
            alg = rng.choice([None, None, False, True])
            qop = rng.choice([None, 'q', 'q'])
            if qop or alg:
                qop = [rng.choice(CL_TOK), rng.choice(['xyz', '', 'c"n', 'c\\', 'ü,'])]
            cl = {'scheme': 'digest', 'user': user, 'realm': realm if rng.random() < 0.85 else rng.choice(REALMS),
                  'nonce': rng.choice(['abc123', '', 'n"', 'n,1', md5hex(str(rng.random()))]),
                  'uri': rng.choice(['/', '/secret?a="b"', '/a,b', '']), 'alg': alg, 'qop': qop, 'password': pw,
                  'method': method if rng.random() < 0.9 else rng.choice(METHODS)}
            tag = 'client-digest'
        cases.append({'kind': 'auth', 'enc': enc, 'realm': realm, 'method': method, 'users': users,
                      'hdr': py_client_header(cl), 'tag': tag, 'form': 'dict', 'client': cl})
    return cases


# ---------------------------------------------------------------------------------------
# the stdlib leaves inside the model, one by one
# ---------------------------------------------------------------------------------------

B64ALPHA = 'ABCDEFGHIJKLMNOPQRSTUVWXYZabcdefghijklmnopqrstuvwxyz0123456789+/'
PY_SPACES = [n for n in range(0x110000) if chr(n).isspace()]


def real_leaf(fn, arg):
    """the real stdlib function -> canonical answer text"""
    if fn == 'a2b':
        try:
            return hx(base64.decodebytes(arg))
        except binascii.Error:
            return '!'
    if fn == 'leafb64':
        try:
            return hx(base64.decodebytes(arg.encode('utf-8')))
        except binascii.Error:
            return '!'
    if fn == 'b64enc':
        return hx(base64.b64encode(arg))
    if fn == 'utf8dec':
        return py_utf8dec(arg)
    if fn == 'utf8enc':
        return hx(''.join(map(chr, arg)).encode('utf-8'))
    if fn == 'strip':
        return sx(arg.strip())
    if fn == 'httplist':
        ps = parse_http_list(arg)
        return ','.join(sx(x) for x in ps) if ps else '='
    if fn == 'kv':
        try:
            kv = parse_keqv_list(parse_http_list(arg))
        except (ValueError, IndexError):
            return '!'
        return kv_canon(';'.join(f'{sx(k)},{sx(v)}' for k, v in kv.items())) if kv else '='
    raise ValueError(fn)


def leaf_arg(c):
    fn = c['fn']
    if fn in ('a2b', 'b64enc', 'utf8dec'):
        return b'' if c['arg'] == '-' else bytes.fromhex(c['arg'])
    return c['arg']


def leaf_op(c):
    fn = c['fn']
    if fn in ('a2b', 'b64enc', 'utf8dec'):
        return f"{fn} {c['arg']}"
    if fn == 'utf8enc':
        return ('utf8enc ' + ' '.join(map(str, c['arg']))).rstrip()
    return f"{fn} {sx(c['arg'])}"


def leaf_class(c, want):
    fn = c['fn']
    arg = leaf_arg(c)
    if fn == 'a2b':
        data = sum(1 for b in arg if chr(b) in B64ALPHA)
        return f"a2b:{'raises' if want == '!' else 'value'}:data%4={data % 4}:{'pad' if b'=' in arg else 'nopad'}:{'noise' if any(chr(b) not in B64ALPHA + '=' for b in arg) else 'clean'}"
    if fn == 'utf8dec':
        return f"utf8dec:{'raises' if want == '!' else 'value'}:{'ascii' if all(b < 128 for b in arg) else 'multibyte'}"
    if fn == 'utf8enc':
        return 'utf8enc:widths=' + ''.join(sorted({str(len(chr(n).encode('utf-8'))) for n in arg}))
    if fn in ('kv', 'leafb64'):
        return f"{fn}:{'raises' if want == '!' else ('empty' if want in ('=', '-') else 'value')}"
    if fn == 'httplist':
        return f"httplist:parts={min(len(parse_http_list(arg)), 5)}:{'quote' if chr(34) in arg else 'noquote'}:{'esc' if chr(92) in arg else 'noesc'}"
    return fn


def eval_leaf(ctx, cases):
    answers = ctx.driver.batch('auth', [[leaf_op(c)] for c in cases])
    for c, a in zip(cases, answers):
        got = a[0]
        if got == 'bad-op':
            raise RuntimeError(f'driver rejected leaf op for {c!r}')
        want = real_leaf(c['fn'], leaf_arg(c))
        if c['fn'] == 'kv':
            got = kv_canon(got)
        ok = got == want
        if not ok:
            ctx.disagree(c, {'where': f"leaf.{c['fn']}", 'impl': want, 'model': got})
        ctx.count('leaf_fn', c['fn'])
        ctx.count('leaf_class', leaf_class(c, want))
        ctx.case(c, nontrivial=bool(leaf_arg(c)), validated=ok)


def rand_text(rng, alphabet, lo, hi):
    return ''.join(rng.choice(alphabet) for _ in range(rng.randint(lo, hi)))


def leaf_cases(ctx):
    rng = ctx.rng
    cases = []

    def add(fn, arg):
        if isinstance(arg, (bytes, bytearray)):
            arg = hx(bytes(arg))
        cases.append({'kind': 'leaf', 'fn': fn, 'arg': arg})

    # --- base64 decoding: directed -----------------------------------------------------
    for t in [b'', b'=', b'==', b'====', b'a', b'ab', b'ab=', b'ab==', b'ab===', b'abc', b'abc=', b'abc==', b'abcd',
              b'abcd=', b'abcde', b'abcdef', b'abcdefg', b'abcdefgh', b'a=b=', b'ab=c', b'ab=c=', b'abc=d', b'ab=!=cd',
              b'ab===x', b'a===', b'=abcd', b'=a=b=c=d', b'ab==cdef', b'ab=\n=', b'a\nb\nc\nd\n', b'YTpi\n', b'YTpi',
              b'YT pi', b'Y-T_pi', b'ab=\xff=', b'\xff\xfe', b'a=', b'a==', b'a=bc', b'a=bcd', b'ab=cd=', b'ab=cd==',
              b'abc=de==', b'ab\x00==', b'Zm9v', b'Zm9vYg==', b'Zm9vYmE=', b'Zm9vYmFy', b'Zm9vYg', b'Zm9vYmE', b'Zm9vY']:
        add('a2b', t)
    for b in range(256):
        add('a2b', b'QUJD' + bytes([b]) + b'RA==')
        add('a2b', bytes([b]) + b'Q==')
    for _ in range(150 * ctx.scale):
        k = rng.random()
        if k < 0.4:
            t = rand_text(rng, B64ALPHA * 3 + '====' + ' \n!-_*', 0, 24).encode()
        elif k < 0.7:
            good = base64.b64encode(bytes(rng.randrange(256) for _ in range(rng.randint(0, 12))))
            cut = rng.randint(0, len(good))
            t = good[:cut] + rng.choice([b'', b'=', b'==', b'\n', b'=x', b'A']) + (good[cut:] if rng.random() < 0.5 else b'')
        else:
            t = bytes(rng.choice([rng.randrange(256), ord('='), ord(rng.choice(B64ALPHA))]) for _ in range(rng.randint(0, 16)))
        add('a2b', t)
    # as the leaf sees it: text, utf-8 encoded first
    for t in ['', 'YTpi', 'YTpié', 'éYTpi', 'YT pi', 'w7w6cMOk', 'YTpi=', 'YTp', '=', 'Y\U0001f600Q==']:
        add('leafb64', t)
    for _ in range(60 * ctx.scale):
        add('leafb64', rand_text(rng, B64ALPHA * 2 + '== \né€', 0, 20))
    # --- RFC 4648 encoder ---------------------------------------------------------------
    for n in range(0, 8):
        add('b64enc', bytes((i * 37 + n) % 256 for i in range(n)))
    for t in [b'\x00', b'\xff', b'\xff\xff', b'\xff\xff\xff', b'\xfb\xef\xbe', b'\x00\x00\x00', b'\xfb\xf0', b'f', b'fo', b'foo', b'foob', b'fooba', b'foobar']:
        add('b64enc', t)
    for _ in range(60 * ctx.scale):
        add('b64enc', bytes(rng.randrange(256) for _ in range(rng.randint(0, 30))))
    # --- utf-8 decoding ----------------------------------------------------------------
    firsts = [0x00, 0x7f, 0x80, 0xbf, 0xc0, 0xc1, 0xc2, 0xdf, 0xe0, 0xe1, 0xec, 0xed, 0xee, 0xef, 0xf0, 0xf1, 0xf3, 0xf4,
              0xf5, 0xf7, 0xf8, 0xfe, 0xff]
    conts = [0x00, 0x7f, 0x80, 0x8f, 0x90, 0x9f, 0xa0, 0xbf, 0xc0, 0xff]
    for f in firsts:
        add('utf8dec', bytes([f]))
        for c1 in conts:
            add('utf8dec', bytes([f, c1]))
            for c2 in (0x7f, 0x80, 0xbf, 0xc0):
                add('utf8dec', bytes([f, c1, c2]))
                for c3 in (0x7f, 0x80, 0xbf, 0xc0):
                    add('utf8dec', bytes([f, c1, c2, c3]))
    for t in [b'', b'abc', 'pä€😀'.encode(), b'a\xc3', b'\xe2\x82', b'\xf0\x9f\x98', b'\xc3\xa9x\xff', b'\xef\xbf\xbf',
              b'\xef\xbb\xbf', b'\xf4\x8f\xbf\xbf', b'\xf4\x90\x80\x80', b'\xed\x9f\xbf', b'\xed\xa0\x80', b'\xed\xbf\xbf',
              b'\xee\x80\x80', b'\xe0\x9f\xbf', b'\xe0\xa0\x80', b'\xf0\x8f\xbf\xbf', b'\xf0\x90\x80\x80', b'\xc1\xbf', b'\xc2\x80']:
        add('utf8dec', t)
    pool = 'aZ09 :éÿĀ߿ࠀ€퟿￿\U00010000\U0001f600\U0010ffff'
    for _ in range(120 * ctx.scale):
        good = rand_text(rng, pool, 0, 8).encode('utf-8')
        k = rng.random()
        if k < 0.4:
            t = good
        elif k < 0.7 and good:
            i = rng.randrange(len(good))
            t = good[:i] + bytes([rng.choice([0x80, 0xbf, 0xc0, 0xff, good[i] ^ 0x40, good[i] ^ 0x80])]) + good[i + 1:]
        elif k < 0.85:
            t = good[:rng.randint(0, len(good))]
        else:
            t = bytes(rng.randrange(256) for _ in range(rng.randint(1, 6)))
        add('utf8dec', t)
    # --- utf-8 encoding ----------------------------------------------------------------
    bounds = [0, 1, 0x7f, 0x80, 0x7ff, 0x800, 0xfff, 0x1000, 0xd7ff, 0xe000, 0xfffd, 0xffff, 0x10000, 0x3ffff, 0x40000, 0x10ffff]
    for n in bounds:
        add('utf8enc', [n])
    add('utf8enc', bounds)
    add('utf8enc', [])
    for _ in range(60 * ctx.scale):
        ns = []
        for _i in range(rng.randint(0, 6)):
            n = rng.choice([rng.randrange(0x80), rng.randrange(0x800), rng.randrange(0x10000), rng.randrange(0x110000)])
            if 0xd800 <= n < 0xe000:
                n -= 0x800
            ns.append(n)
        add('utf8enc', ns)
    # --- str.strip ---------------------------------------------------------------------
    near = [0x08, 0x0e, 0x1b, 0x21, 0x84, 0x86, 0x9f, 0xa1, 0x180e, 0x1fff, 0x200b, 0x2027, 0x202a, 0x2060, 0x2fff, 0x3001, 0xfeff]
    for n in PY_SPACES + near:
        add('strip', chr(n) + 'a' + chr(n))
        add('strip', 'a' + chr(n) + 'b')
    for t in ['', ' ', ' \t\n', 'a', ' a b ', '　 x ', 'x​ ', ' ​x']:
        add('strip', t)
    # --- parse_http_list / parse_keqv_list ---------------------------------------------
    texts = ['', ',', ',,', ' ', ' , ', 'a', 'a=b', 'a=', '=b', '=', 'a="b"', 'a="b', 'a=b"', 'a="', 'a=""', 'a=" "', 'a="b",c=d',
             'a="b,c", d=e', 'a="b\\"c"', 'a="b\\\\"', 'a="b\\', 'a=b\\,c', 'a="b\\,c"', 'a=b,a=c', 'a=b, c=d ,a=e', 'a = b', 'a= "b"',
             'a="b" ', ' a="b"', 'a=b=c', 'a=="b"', 'a="b"c"', 'a="b" x,c=d', '"a"=b', '"a,b"=c', 'a="b", ', 'a="b",', ',a=b',
             'a=b,,c=d', 'a= b ', ' a=b　', 'a="é,€"', 'a=\'b,c\'', 'a="b""c"', 'a=b"c,d"e',
             'username="alice", realm="Test", nonce="n", uri="/", response="r"', 'a="b"\x1f', '\x1ca=b', 'k="v\\"', 'k="\\""']
    for t in texts:
        add('httplist', t)
        add('kv', t)
    hl_alpha = 'ab=,"\\ \t' * 3 + 'é  \'x='
    for _ in range(300 * ctx.scale):
        t = rand_text(rng, hl_alpha, 0, 16)
        add('httplist', t)
        add('kv', t)
    for _ in range(150 * ctx.scale):
        # near well-formed: items k=v / k="v" with a little noise
        items = []
        for _i in range(rng.randint(0, 4)):
            k = rand_text(rng, 'abk', 0, 2)
            v = rand_text(rng, 'xy ,"\\=', 0, 4)
            items.append(rng.choice([f'{k}="{esc_q(v)}"', f'{k}={v}', f'{k}="{v}"', k]))
        add('kv', rng.choice([', ', ',', ' , ']).join(items))
    return cases


# ---------------------------------------------------------------------------------------
# md5 instantiation
# ---------------------------------------------------------------------------------------

def md5_cases(ctx):
    rng = ctx.rng
    data = [b'', b'a', b'abc', b'message digest', b'abcdefghijklmnopqrstuvwxyz',
            b'12345678901234567890123456789012345678901234567890123456789012345678901234567890']
    for n in (54, 55, 56, 57, 63, 64, 65, 119, 120, 128):
        data.append(bytes((i * 7 + n) % 256 for i in range(n)))
    for _ in range(30 * ctx.scale):
        data.append(bytes(rng.randrange(256) for _ in range(rng.randint(0, 200))))
    return [{'kind': 'md5', 'data': hx(d)} for d in data]


def eval_md5(ctx, cases):
    ans = ctx.driver.batch('auth', [[f"md5 {c['data']}"] for c in cases])
    for c, a in zip(cases, ans):
        d = b'' if c['data'] == '-' else bytes.fromhex(c['data'])
        want = hashlib.md5(d).hexdigest()
        ok = a[0] == want
        if not ok:
            ctx.disagree(c, {'where': 'md5', 'impl': want, 'model': a[0]})
        ctx.case(c, nontrivial=len(d) > 0, validated=ok)


# ---------------------------------------------------------------------------------------
# sessions
# ---------------------------------------------------------------------------------------

IPS = ['10.0.0.1', '10.0.0.2', '10.0.0.12']
AGENTS = ['Mozilla/5.0', 'curl/8', '', '2curl']


class _FakeUUID:
    def __init__(self, h):
        self.hex = h


def cookie_value(spec, sids, ip, agent):
    """concrete cookie text of a symbolic cookie spec (None = no cookie)"""
    if spec is None:
        return None
    kind = spec[0]
    if kind == 'sid':
        return sids[spec[1]] if spec[1] < len(sids) else None
    if kind == 'forged-prefix':        # somebody else's fingerprint suffix, own choice of id
        s = sids[spec[1]] if spec[1] < len(sids) else 'x/y'
        return spec[2] + '/' + (s.split('/', 1)[1] if '/' in s else s)
    if kind == 'own-fp':               # attacker-chosen id with the presenter's own fingerprint
        return spec[1] + '/' + hashlib.sha1(f'{ip}{agent}'.encode()).hexdigest()
    if kind == 'noslash':
        s = sids[spec[1]] if spec[1] < len(sids) else 'xy'
        return s.replace('/', '')
    if kind == 'prefix-only':
        s = sids[spec[1]] if spec[1] < len(sids) else 'xy'
        return s.split('/', 1)[0]
    if kind == 'extra':
        s = sids[spec[1]] if spec[1] < len(sids) else 'x/y'
        return s + spec[2]
    if kind == 'literal':
        return spec[1]
    raise ValueError(spec)


def act_tokens(act):
    if act[0] == 'put':
        return f'put {sx(act[1])} {sx(act[2])}'
    return act[0]


def run_session_impl(c):
    """-> list of per-step observations"""
    from circuits.web import sessions as S
    recorded = {}
    real_sha = hashlib.sha1

    def sha(data=b''):
        h = real_sha(data)
        recorded[bytes(data)] = h.hexdigest()
        return h

    saved = (S.sha, S.uuid)
    cur = {'u': None}
    S.sha = sha
    S.uuid = lambda: _FakeUUID(cur['u'])
    try:
        comp = S.Sessions()
        sids, out = [], []
        for st in c['steps']:
            ip, agent = st['ip'], st['agent']
            cur['u'] = st['u']
            recorded.clear()
            cval = cookie_value(st['cookie'], sids, ip, agent)
            hdrs = [('User-Agent', agent)] if agent is not None else []
            if cval is not None:
                hdrs.append(('Cookie', f'circuits={cval}'))
            rq, rs = mk_request(hdrs, ip=ip)
            seen_cookie = rq.cookie['circuits'].value if 'circuits' in rq.cookie else None
            comp.request(rq, rs)
            sid = rs.cookie['circuits'].value
            contents = [(k, v) for k, v in rq.session.items()]
            act = st['act']
            if act[0] == 'put':
                with rq.session as d:
                    d[act[1]] = act[2]
            elif act[0] == 'expire':
                rq.session.expire()
            w = recorded.get(f'{ip}{agent or ""}'.encode('utf-8'))
            sids.append(sid)
            out.append({'cookie': seen_cookie, 'sid': sid, 'contents': contents, 'w': w,
                        'session_sid': rq.session.sid})
        return out
    finally:
        S.sha, S.uuid = saved


def canon_step(a):
    """'<sid> | k,v k,v' with the items sorted (dict order is not compared)"""
    if '|' not in a:
        return a.strip()
    sid_t, _, items = a.partition('|')
    return sid_t.strip() + ' | ' + ' '.join(sorted(items.split()))


def classify_session(c, clause, obs):
    """signature: the broken clause + what differed between the two requests sharing an id"""
    steps = c['steps']
    for i in range(len(steps)):
        for j in range(i):
            if obs[j]['sid'] == obs[i]['sid']:
                differ = []
                if steps[i]['ip'] != steps[j]['ip']:
                    differ.append('address')
                if (steps[i]['agent'] or '') != (steps[j]['agent'] or ''):
                    differ.append('user-agent')
                if differ:
                    return f"session-leak({clause}; differing={'+'.join(differ)})"
    return f'session-leak({clause})'


def eval_session(ctx, cases):
    ops, impl = [], []
    for c in cases:
        try:
            obs = run_session_impl(c)
        except Exception as e:
            ctx.violate(c, f'session-exception({type(e).__name__})', f'Sessions raised {e!r}')
            impl.append(None)
            ops.append([])
            continue
        o = []
        for st, ob in zip(c['steps'], obs):
            agent = st['agent'] or ''
            o.append(f"step {sx(st['ip'])} {sx(agent)} {opt(ob['cookie'])} {sx(st['u'])} {opt(ob['w'])} {act_tokens(st['act'])}")
        for st, ob in zip(c['steps'], obs):
            agent = st['agent'] or ''
            seen = ' '.join(f'{sx(k)},{sx(v)}' for k, v in ob['contents'])
            o.append(f"rec {sx(st['ip'])} {sx(agent)} {opt(ob['cookie'])} {sx(ob['sid'])} {act_tokens(st['act'])} | {seen}".rstrip())
        o.append('spec')
        ops.append(o)
        impl.append(obs)
    answers = ctx.driver.batch('session', ops)
    for c, obs, ans in zip(cases, impl, answers):
        if obs is None:
            ctx.case(c, validated=False)
            continue
        n = len(c['steps'])
        ok = True
        for i, (ob, a) in enumerate(zip(obs, ans[:n])):
            want = canon_step(f"{sx(ob['sid'])} | " + ' '.join(f'{sx(k)},{sx(v)}' for k, v in ob['contents']))
            got = canon_step(a)
            if got != want:
                ok = False
                ctx.disagree(c, {'where': 'session.step', 'step': i, 'impl': want, 'model': got})
                break
            if ob['session_sid'] != ob['sid']:
                ctx.violate(c, 'session-leak(cookie-and-session-id-differ)', 'response cookie and request.session.sid differ')
        if any(a == 'bad-op' for a in ans):
            raise RuntimeError(f'driver rejected a session op: {ops[cases.index(c)]!r}')
        if ans[-1] != 'ok':
            clause = ans[-1].split(' ', 1)[1] if ' ' in ans[-1] else ans[-1]
            ctx.violate(c, classify_session(c, clause, obs),
                        f'session trace breaks clause {clause}: ' +
                        '; '.join(f"{s['ip']}/{s['agent']!r} cookie={o['cookie']!r} -> sid={o['sid']!r} saw {o['contents']!r}"
                                  for s, o in zip(c['steps'], obs)))
        honoured = sum(1 for o in obs if o['cookie'] == o['sid'])
        ctx.count('session_steps', n)
        ctx.count('session_honoured', honoured)
        for s in c['steps']:
            ctx.count('session_cookie_kind', s['cookie'][0] if s['cookie'] else 'none')
        ctx.case(c, nontrivial=n > 1, validated=ok)


def session_cases(ctx):
    rng = ctx.rng
    cases = []

    def uu():
        return uuidmod.UUID(int=rng.getrandbits(128)).hex

    # pairs of requests: the first stores, the second differs in cookie / address / agent
    second_cookies = [None, ['sid', 0], ['forged-prefix', 0, 'zz'], ['own-fp', 'zz'], ['noslash', 0],
                      ['prefix-only', 0], ['extra', 0, '/x'], ['extra', 0, 'x'], ['literal', '/'], ['literal', 'abc']]
    for ip1, ag1 in itertools.product(IPS, AGENTS[:3]):
        for ip2, ag2 in itertools.product(IPS, AGENTS[:3]):
            for ck in second_cookies:
                cases.append({'kind': 'session', 'steps': [
                    {'ip': ip1, 'agent': ag1, 'cookie': None, 'u': uu(), 'act': ['put', 'name', 'v1']},
                    {'ip': ip2, 'agent': ag2, 'cookie': ck, 'u': uu(), 'act': ['get']},
                    {'ip': ip1, 'agent': ag1, 'cookie': ['sid', 0], 'u': uu(), 'act': ['get']},
                ]})
    # random histories
    for _ in range(400 * ctx.scale):
        n = rng.randint(2, 8)
        steps = []
        vals = 0
        for i in range(n):
            kind = rng.random()
            if i == 0 or kind < 0.15:
                ck = None
            elif kind < 0.65:
                ck = ['sid', rng.randrange(i)]
            elif kind < 0.75:
                ck = ['forged-prefix', rng.randrange(i), rng.choice(['zz', '', 'a/b'])]
            elif kind < 0.85:
                ck = ['own-fp', rng.choice(['zz', 'id1', ''])]
            elif kind < 0.90:
                ck = [rng.choice(['noslash', 'prefix-only']), rng.randrange(i)]
            elif kind < 0.95:
                ck = ['extra', rng.randrange(i), rng.choice(['/x', 'x', '/'])]
            else:
                ck = ['literal', rng.choice(['/', 'abc', 'a/b', '//'])]
            a = rng.random()
            if a < 0.45:
                vals += 1
                act = ['put', rng.choice(['name', 'k2', 'k3']), f'v{vals}']
            elif a < 0.9:
                act = ['get']
            else:
                act = ['expire']
            steps.append({'ip': rng.choice(IPS), 'agent': rng.choice(AGENTS + [None]), 'cookie': ck, 'u': uu(), 'act': act})
        cases.append({'kind': 'session', 'steps': steps})
    return cases


# ---------------------------------------------------------------------------------------
# how the session id travels: configured cookie name, other cookies, Set-Cookie (CV.Model.SessionCookie)
# ---------------------------------------------------------------------------------------
#
# `Sessions(name=...)` with requests whose Cookie header carries SEVERAL cookies: somebody's (or the
# presenter's own) valid id under another name, under a name differing in case, under a longer / shorter
# name, and under the configured one.  The jar handed to the model is `request.cookie` as parsed by the real
# SimpleCookie (stdlib leaf); compared: the id given, the contents shown, and `response.cookie` afterwards
# (names and values, order not compared).  Judged on the implementation: `traceOk` with cookie = the value
# under the CONFIGURED name, and `session-id-from-foreign-cookie` when a request that is not honoured ends
# up with an id that one of its OTHER cookies carried.

SJ_NAMES = ['circuits', 'sid', 'SESSION', 'c']


def sj_other_names(name):
    return [name.swapcase(), name.upper() if name != name.upper() else name.lower(), name + '2', 'x' + name, name[:-1] or 'z',
            'other', 'circuits' if name != 'circuits' else 'session']


def sj_relation(name, other):
    if other.lower() == name.lower():
        return 'case-variant'
    if other.startswith(name) or other.endswith(name):
        return 'longer-name'
    if name.startswith(other):
        return 'shorter-name'
    return 'other-name'


def run_sessionjar_impl(c):
    from circuits.web import sessions as S
    recorded = {}
    real_sha = hashlib.sha1

    def sha(data=b''):
        h = real_sha(data)
        recorded[bytes(data)] = h.hexdigest()
        return h

    saved = (S.sha, S.uuid)
    cur = {'u': None}
    S.sha = sha
    S.uuid = lambda: _FakeUUID(cur['u'])
    try:
        comp = S.Sessions(name=c['name'])
        sids, out = [], []
        for st in c['steps']:
            ip, agent = st['ip'], st['agent']
            cur['u'] = st['u']
            recorded.clear()
            pairs = []
            for nm, spec in st['cookies']:
                v = cookie_value(spec, sids, ip, agent)
                if v is not None:
                    pairs.append((nm, v))
            hdrs = [('User-Agent', agent)] if agent is not None else []
            if pairs:
                hdrs.append(('Cookie', '; '.join(f'{n}={v}' for n, v in pairs)))
            rq, rs = mk_request(hdrs, ip=ip)
            jar = [(k, m.value) for k, m in rq.cookie.items()]
            comp.request(rq, rs)
            sid = rq.session.sid
            contents = [(k, v) for k, v in rq.session.items()]
            after = [(k, m.value) for k, m in rs.cookie.items()]
            act = st['act']
            if act[0] == 'put':
                with rq.session as d:
                    d[act[1]] = act[2]
            elif act[0] == 'expire':
                rq.session.expire()
            w = recorded.get(f'{ip}{agent or ""}'.encode('utf-8'))
            sids.append(sid)
            out.append({'sent': pairs, 'jar': jar, 'cookie': dict(jar).get(c['name']), 'sid': sid, 'contents': contents, 'w': w,
                        'after': after})
        return out
    finally:
        S.sha, S.uuid = saved


def jar_token(jar):
    return ';'.join(f'{sx(k)},{sx(v)}' for k, v in jar) if jar else '='


def canon_stepj(a):
    parts = [p.strip() for p in a.split('|')]
    if len(parts) != 3:
        return a.strip()
    return parts[0] + ' | ' + ' '.join(sorted(parts[1].split())) + ' | ' + ';'.join(sorted(x for x in parts[2].split(';') if x != '='))


def eval_sessionjar(ctx, cases):
    ops, impl = [], []
    for c in cases:
        try:
            obs = run_sessionjar_impl(c)
        except Exception as e:  # noqa: BLE001
            ctx.violate(c, f'session-exception({type(e).__name__})', f'Sessions(name={c["name"]!r}) raised {e!r}')
            impl.append(None)
            ops.append([])
            continue
        o = []
        for st, ob in zip(c['steps'], obs):
            agent = st['agent'] or ''
            o.append(f"stepj {sx(c['name'])} {sx(st['ip'])} {sx(agent)} {jar_token(ob['jar'])} {sx(st['u'])} {opt(ob['w'])} {act_tokens(st['act'])}")
        for st, ob in zip(c['steps'], obs):
            agent = st['agent'] or ''
            seen = ' '.join(f'{sx(k)},{sx(v)}' for k, v in ob['contents'])
            o.append(f"rec {sx(st['ip'])} {sx(agent)} {opt(ob['cookie'])} {sx(ob['sid'])} {act_tokens(st['act'])} | {seen}".rstrip())
        o.append('spec')
        ops.append(o)
        impl.append(obs)
    answers = ctx.driver.batch('session', ops)
    for c, obs, o, ans in zip(cases, impl, ops, answers):
        if obs is None:
            ctx.case(c, validated=False)
            continue
        if any(a == 'bad-op' for a in ans):
            raise RuntimeError(f'driver rejected a sessionjar op: {[x for x, a in zip(o, ans) if a == "bad-op"][:1]!r}')
        n = len(c['steps'])
        name = c['name']
        ok = True
        for i, (ob, a) in enumerate(zip(obs, ans[:n])):
            want = canon_stepj(f"{sx(ob['sid'])} | " + ' '.join(f'{sx(k)},{sx(v)}' for k, v in ob['contents']) + ' | ' + jar_token(ob['after']))
            got = canon_stepj(a)
            if got != want:
                ok = False
                ctx.disagree(c, {'where': 'sessionjar.step', 'step': i, 'impl': want, 'model': got,
                                 'note': '<sid> | <contents> | <response.cookie afterwards>'})
                break
        # judged on the implementation alone (independently of the comparison with the model)
        for i, ob in enumerate(obs):
            after = dict(ob['after'])
            if after.get(name) != ob['sid']:
                ctx.violate(c, 'session-leak(cookie-and-session-id-differ)',
                            f'Sessions(name={name!r}): response cookie {name!r} is {after.get(name)!r} but request.session.sid is {ob["sid"]!r}')
            if ob['cookie'] != ob['sid']:
                # not honoured: the id must not have been taken from one of the OTHER cookies of this request
                for k, v in ob['jar']:
                    if k != name and v == ob['sid']:
                        ctx.violate(dict(c, steps=c['steps'][:i + 1]), f'session-id-from-foreign-cookie({sj_relation(name, k)})',
                                    f'Sessions(name={name!r}): a request from {c["steps"][i]["ip"]} sending Cookie {ob["sent"]!r} was given the '
                                    f'session id {ob["sid"]!r}, which it carried under the name {k!r}, not under the configured name')
                        break
        if ans[-1] != 'ok':
            clause = ans[-1].split(' ', 1)[1] if ' ' in ans[-1] else ans[-1]
            ctx.violate(c, classify_session(c, clause, obs),
                        f'Sessions(name={name!r}) trace breaks clause {clause}: ' +
                        '; '.join(f"{s['ip']}/{s['agent']!r} Cookie={o_['sent']!r} -> sid={o_['sid']!r} saw {o_['contents']!r}"
                                  for s, o_ in zip(c['steps'], obs)))
        ctx.count('sessionjar_name', name)
        ctx.count('sessionjar_steps', n)
        for s, ob in zip(c['steps'], obs):
            ctx.count('sessionjar_cookies_in_header', len(ob['sent']))
            ctx.count('sessionjar_configured_name', 'present' if ob['cookie'] is not None else 'absent')
            ctx.count('sessionjar_outcome', 'honoured' if ob['cookie'] == ob['sid'] else 'fresh-id')
            for k, _v in ob['sent']:
                ctx.count('sessionjar_cookie_name', 'configured' if k == name else sj_relation(name, k))
            if len(ob['jar']) != len(ob['sent']):
                ctx.count('sessionjar_parser', f"{len(ob['sent'])} sent -> {len(ob['jar'])} parsed")
        ctx.case(c, nontrivial=any(len(ob['sent']) > 0 for ob in obs), validated=ok)


def sessionjar_cases(ctx):
    rng = ctx.rng
    cases = []

    def uu():
        return uuidmod.UUID(int=rng.getrandbits(128)).hex

    # directed: a victim stores; then its id arrives under every other name, alone / before / after the configured name
    own = ['sid', 0]
    for name in SJ_NAMES:
        for other in sj_other_names(name):
            for ip2, ag2 in ((IPS[0], AGENTS[0]), (IPS[1], AGENTS[0]), (IPS[0], AGENTS[1])):
                variants = [
                    [[other, own]],
                    [[other, own], [name, ['literal', 'abc']]],
                    [[name, ['own-fp', 'zz']], [other, own]],
                    [[other, own], [name, own]],
                    [[name, own], [other, ['forged-prefix', 0, 'zz']]],
                    [[other, ['literal', 'x']], [name, ['noslash', 0]], ['third', own]],
                ]
                for cookies in variants:
                    cases.append({'kind': 'sessionjar', 'name': name, 'steps': [
                        {'ip': IPS[0], 'agent': AGENTS[0], 'cookies': [], 'u': uu(), 'act': ['put', 'name', 'v1']},
                        {'ip': ip2, 'agent': ag2, 'cookies': cookies, 'u': uu(), 'act': ['get']},
                        {'ip': IPS[0], 'agent': AGENTS[0], 'cookies': [[name, own]], 'u': uu(), 'act': ['get']},
                    ]})
    # random histories with 0-3 cookies per request
    for _ in range(250 * ctx.scale):
        name = rng.choice(SJ_NAMES)
        names = [name, name, name] + sj_other_names(name)
        steps = []
        vals = 0
        for i in range(rng.randint(2, 6)):
            cookies = []
            used = set()
            for _j in range(rng.choice([0, 1, 1, 2, 2, 3]) if i else 0):
                nm = rng.choice(names)
                if nm in used:
                    continue
                used.add(nm)
                kind = rng.random()
                if kind < 0.6:
                    spec = ['sid', rng.randrange(i)]
                elif kind < 0.75:
                    spec = ['forged-prefix', rng.randrange(i), rng.choice(['zz', 'a/b'])]
                elif kind < 0.85:
                    spec = ['own-fp', rng.choice(['zz', 'id1'])]
                elif kind < 0.92:
                    spec = [rng.choice(['noslash', 'prefix-only']), rng.randrange(i)]
                else:
                    spec = ['literal', rng.choice(['abc', 'a/b', 'x'])]
                cookies.append([nm, spec])
            a = rng.random()
            if a < 0.45:
                vals += 1
                act = ['put', rng.choice(['name', 'k2']), f'v{vals}']
            elif a < 0.9:
                act = ['get']
            else:
                act = ['expire']
            steps.append({'ip': rng.choice(IPS), 'agent': rng.choice(AGENTS + [None]), 'cookies': cookies, 'u': uu(), 'act': act})
        cases.append({'kind': 'sessionjar', 'name': name, 'steps': steps})
    return cases


# ---------------------------------------------------------------------------------------
# virtual hosts
# ---------------------------------------------------------------------------------------

GW_A, GW_B, GW_C = '192.168.0.1', '192.168.0.2', '203.0.113.9'
DOMAINS = [['www.one.example', 'one'], ['two.example', 'two'], ['empty.example', ''], ['two.example:8000', 'two/port']]


def gateways_obj(cfg):
    if cfg is None:
        return None
    kind, items = cfg
    return {'list': list, 'tuple': tuple, 'set': set}[kind](items)


def impl_vhost(c, with_xfh=True):
    from circuits.web.dispatchers.virtualhosts import VirtualHosts
    doms = dict((k, v) for k, v in c['domains'])
    if c['gateways'] is None and c.get('omit_kw', True):
        vh = VirtualHosts(doms)
    else:
        vh = VirtualHosts(doms, trusted_gateways=gateways_obj(c['gateways']))
    hdrs = []
    if c['host'] is not None:
        hdrs.append(('Host', c['host']))
    if with_xfh and c['xfh'] is not None:
        hdrs.append(('X-Forwarded-Host', c['xfh']))
    rq, rs = mk_request(hdrs, ip=c['ip'], path=c['path'])
    vh._on_request(None, rq, rs)
    return rq.path


def eval_vhost(ctx, cases):
    ops = []
    for c in cases:
        g = c['gateways']
        gt = '~' if g is None else ('=' if not g[1] else ','.join(sx(x) for x in g[1]))
        doms = ' '.join(f'{sx(k)},{sx(v)}' for k, v in c['domains'])
        ops.append([f"route current {gt} {sx(c['ip'])} {opt(c['host'])} {opt(c['xfh'])} {doms}".rstrip()])
    answers = ctx.driver.batch('vhost', ops)
    for c, ans in zip(cases, answers):
        a = ans[0]
        if a == 'bad-op':
            raise RuntimeError(f'driver rejected vhost op for {c!r}')
        ok = True
        try:
            got = impl_vhost(c)
            base = impl_vhost(c, with_xfh=False)
        except Exception as e:
            ctx.violate(c, f'vhost-exception({type(e).__name__})', f'VirtualHosts raised {e!r}')
            ctx.case(c, validated=False)
            continue
        if a == '~':
            want = c['path']
        else:
            prefix = bytes.fromhex(a).decode('utf-8') if a != '-' else ''
            want = urljoin('/%s/' % prefix, c['path'].strip('/'))
        if got != want:
            ok = False
            ctx.disagree(c, {'where': 'vhost.path', 'impl': got, 'model': want})
        g = c['gateways']
        if g is not None and c['ip'] not in g[1] and got != base:
            ctx.violate(c, 'forwarded-host-from-untrusted',
                        f'gateways={g[1]!r}, remote {c["ip"]} is not one of them, yet X-Forwarded-Host={c["xfh"]!r} '
                        f'changed the routed path from {base!r} to {got!r}')
        ctx.count('vhost_gateways', 'None' if g is None else f'{g[0]}:{len(g[1])}')
        ctx.count('vhost_trusted', 'n/a' if g is None else ('yes' if c['ip'] in g[1] else 'no'))
        ctx.count('vhost_influence', 'changed' if got != base else 'same')
        ctx.case(c, nontrivial=c['xfh'] is not None, validated=ok)


def vhost_cases(ctx):
    rng = ctx.rng
    cases = []
    configs = [None, ['list', []], ['list', [GW_A]], ['list', [GW_A, GW_B]], ['tuple', [GW_A]], ['set', [GW_A, GW_B]]]
    hosts = [None, 'www.one.example', 'nowhere.example', 'two.example:8000']
    xfhs = [None, 'two.example', 'unknown.example', ' Two.Example , other.example', ', two.example', '',
            'www.one.example', 'empty.example', 'TWO.EXAMPLE\t', 'two.example,www.one.example']
    for cfg, ip, host, xfh, path in itertools.product(configs, [GW_A, GW_B, GW_C], hosts, xfhs, ['/', '/x/y']):
        cases.append({'kind': 'vhost', 'gateways': cfg, 'ip': ip, 'host': host, 'xfh': xfh, 'path': path,
                      'domains': DOMAINS})
    cases.append({'kind': 'vhost', 'gateways': None, 'omit_kw': False, 'ip': GW_C, 'host': None, 'xfh': 'two.example',
                  'path': '/', 'domains': DOMAINS})
    # remote addresses that are *textually close* to a configured gateway but denote another host (a digit more or less, the
    # dotted quad embedded in an IPv6 address that is not the IPv4-mapped form, a port glued on, a different IPv6 host with the same
    # tail): trust must not be granted on a partial match.  (Forms denoting the *same* host - `::ffff:a.b.c.d`, other spellings of
    # one IPv6 address - are left out on purpose: honouring them would not contradict the statement.)
    def near_misses(g):
        if ':' in g:
            return [g + '1', '1' + g, g + ':1', 'fe80' + g, g.replace('::', '::1:', 1), g + '%eth0x']
        return [g + '1', '1' + g, g[:-1] or '0', '2001:db8::' + g, '64:ff9b::' + g, '::' + g, 'fe80::1:' + g, g + ':80',
                g + '.', ' ' + g, g.replace('.', ':', 1)]
    GW6 = '2001:db8::7'
    for cfg in (['list', [GW_A]], ['tuple', [GW_A, GW_B]], ['set', [GW6]], ['list', [GW6, GW_A]]):
        for g in cfg[1]:
            for ip in near_misses(g):
                for xfh in ('two.example', ' Two.Example , other.example'):
                    cases.append({'kind': 'vhost', 'gateways': cfg, 'ip': ip, 'host': rng.choice(hosts), 'xfh': xfh,
                                  'path': rng.choice(['/', '/x/y']), 'domains': DOMAINS})
            cases.append({'kind': 'vhost', 'gateways': cfg, 'ip': g, 'host': None, 'xfh': 'two.example', 'path': '/', 'domains': DOMAINS})
    pool = [GW_A, GW_B, GW_C, '10.1.1.1', '::1', '', GW6] + near_misses(GW_A)[:6] + near_misses(GW6)[:3]
    for _ in range(400 * ctx.scale):
        k = rng.randint(0, 3)
        cfg = None if rng.random() < 0.2 else [rng.choice(['list', 'tuple', 'set']), sorted(set(rng.sample(pool, k)))]
        sp = rng.choice(['', ' ', '\t', '  '])
        name = rng.choice(['two.example', 'TWO.example', 'www.one.example', 'x.example', 'empty.example', ''])
        xfh = rng.choice([None, sp + name + sp, name + ',' + rng.choice(['a', 'two.example']), ',' + name, sp])
        cases.append({'kind': 'vhost', 'gateways': cfg, 'ip': rng.choice(pool), 'host': rng.choice(hosts),
                      'xfh': xfh, 'path': rng.choice(['/', '/a', '/a/b/', 'a', '//a//']), 'domains': DOMAINS})
    return cases


# ---------------------------------------------------------------------------------------
# parameter obligations
# ---------------------------------------------------------------------------------------

# ---------------------------------------------------------------------------------------
# every shape of user table, evaluated per call (CV.Model.AuthTable)
# ---------------------------------------------------------------------------------------
#
# `users` may be a dict (mutated between the calls), a callable returning a dict, a callable taking the
# user name, a callable returning something that is not a dict, a callable that raises, a callable that
# changes its behaviour from call to call, or an object that is neither callable nor a dict.  A case is
# a sequence of 1-3 front-end calls with ONE table object whose answer during call k is `calls[k]['ans']`
# (the harness moves the object to its k-th state just before call k), on ONE request object
# (`object: one`) or on a fresh request per call (`object: fresh`).  Model: `runCalls` (CV.Model.AuthTable);
# judged on the implementation by `soundOnA` / `completeOnA` with the answer of THAT call.

TABLE_SHAPES = ['dict', 'dict-subclass', 'not-dict', 'callable-dict', 'callable-name', 'callable-other',
                'callable-raises', 'callable-mixed']
TABLE_EXC = {'KeyError': KeyError, 'RuntimeError': RuntimeError, 'ValueError': ValueError, 'TypeError': TypeError,
             'OSError': OSError}
TABLE_NONDICT = {
    'list': lambda: [('alice', 'wonder')],
    'none': lambda: None,
    'str': lambda: 'alice',
    'int': lambda: 7,
    'tuple': lambda: (('alice', 'wonder'),),
    'mappingproxy': lambda: __import__('types').MappingProxyType({'alice': 'wonder'}),
    'set': lambda: {'alice'},
}


def ans_tokens(ans):
    t = ans['t']
    if t == 'dict':
        return ('dict ' + ' '.join(f'{sx(u)},{sx(p)}' for u, p in ans['users'])).rstrip()
    if t == 'byname':
        ents = [f"{sx(u)}," + (sx(p) if kind == 'pw' else ('~' if kind == 'absent' else '!')) for u, kind, p in ans['entries']]
        return ' '.join(['byname', '~' if ans['default'] == 'absent' else '!'] + ents)
    return 'nondict' if t == 'nondict' else 'raises'


def ans_kind(ans):
    t = ans['t']
    if t == 'nondict':
        return 'nondict:' + ans['value']
    if t == 'raises':
        return 'raises:' + ans['exc']
    if t == 'byname':
        return 'byname/' + ans['default']
    return 'dict'


def ans_view(ans, name):
    """what the answer holds for `name`: ('pw', p) | ('absent',) | ('error',)"""
    t = ans['t']
    if name is None:
        return ('no-user',)
    if t == 'dict':
        d = dict(map(tuple, ans['users']))
        return ('pw', d[name]) if name in d else ('absent',)
    if t == 'byname':
        for u, kind, p in ans['entries']:
            if u == name:
                return ('pw', p) if kind == 'pw' else (('absent',) if kind == 'absent' else ('error',))
        return ('absent',) if ans['default'] == 'absent' else ('error',)
    return ('error',)


def change_kind(prev, cur, name):
    a, b = ans_view(prev, name), ans_view(cur, name)
    if name is None:
        return 'no-user-in-header'
    if a == b:
        return 'same-entry'
    if b[0] == 'error':
        return 'table-broke'
    if a[0] == 'error':
        return 'table-repaired'
    if a[0] == 'pw' and b[0] == 'pw':
        return 'password-changed'
    return 'user-removed' if a[0] == 'pw' else 'user-added'


def hdr_username(hdr):
    if hdr is None or ' ' not in hdr:
        return None
    scheme, params = hdr.split(' ', 1)
    if scheme.lower() == 'basic':
        try:
            return base64.decodebytes(params.encode('utf-8')).split(b':', 1)[0].decode('utf-8')
        except Exception:  # noqa: BLE001
            return None
    if scheme.lower() == 'digest':
        kv = leaves_of(hdr)[2]
        return kv.get('username') if kv else None
    return None


def _eval_zero(ans):
    """what `users()` does in the state `ans`"""
    t = ans['t']
    if t == 'dict':
        return dict(map(tuple, ans['users']))
    if t == 'nondict':
        return TABLE_NONDICT[ans['value']]()
    if t == 'raises':
        raise TABLE_EXC[ans['exc']]('user table backend failed')
    raise TypeError("users() missing 1 required positional argument: 'username'")


def _eval_name(ans, name):
    """what `users(name)` does in the state `ans`"""
    if ans['t'] != 'byname':
        return _eval_zero(ans)
    for u, kind, p in ans['entries']:
        if u == name:
            if kind == 'pw':
                return p
            if kind == 'absent':
                return None
            raise KeyError(name)
    if ans['default'] == 'absent':
        return None
    raise KeyError(name)


class _TableObject:
    """ONE `users` object for a whole sequence; `goto(k)` moves it to the state it has during call k"""

    def __init__(self, shape, answers):
        import collections
        self.answers = answers
        self.k = 0
        self.evaluations = 0
        if shape in ('dict', 'dict-subclass'):
            self.obj = {} if shape == 'dict' else collections.OrderedDict()
        elif shape == 'not-dict':
            self.obj = TABLE_NONDICT[answers[0]['value']]()
        elif shape == 'callable-name':
            def users(username):
                self.evaluations += 1
                return _eval_name(self.answers[self.k], username)
            self.obj = users
        elif shape == 'callable-mixed':
            def users(*args):
                self.evaluations += 1
                a = self.answers[self.k]
                return _eval_name(a, args[0]) if args else _eval_zero(a)
            self.obj = users
        else:
            def users():
                self.evaluations += 1
                return _eval_zero(self.answers[self.k])
            self.obj = users
        self.shape = shape

    def goto(self, k):
        self.k = k
        if self.shape in ('dict', 'dict-subclass'):
            self.obj.clear()
            self.obj.update(map(tuple, self.answers[k]['users']))


def login_token(rq):
    if rq.login is None:
        return 'unset'
    if rq.login is False:
        return 'no'
    return 'user=' + sx(rq.login) if isinstance(rq.login, str) else 'other:' + repr(rq.login)


def impl_table_seq(c, calls=None, only=None):
    """run the calls with ONE table object -> [(granted, login_if_True, obs, exc, login attribute afterwards)]"""
    calls = c['calls'] if calls is None else calls
    hdrs = [] if c['hdr'] is None else [('Authorization', c['hdr'])]
    tbl = _TableObject(c['shape'], [call['ans'] for call in calls])
    rq = rs = None
    out = []
    for k, call in enumerate(calls):
        if rq is None or c['object'] == 'fresh':
            rq, rs = mk_request(hdrs, method=c['method'])
        tbl.goto(k)
        r = impl_call(rq, rs, call['front'], call['realm'], tbl.obj, ENC_FUN[call['enc']])
        out.append(r + (login_token(rq),))
    return out


def classify_table(c, k, clause):
    """signature of a verdict of call k that breaks `clause` also on a fresh request with a fresh table"""
    ans = c['calls'][k]['ans']
    view = ans_view(ans, hdr_username(c['hdr']))
    what = {'pw': 'entry-present', 'absent': 'unknown-user', 'error': 'table-error', 'no-user': 'no-user-in-header'}[view[0]]
    if clause == 'bypass':
        return f"bypass({c['shape']}-table; {ans_kind(ans).split(':')[0]}; {what})"
    return f"valid-credentials-refused({c['shape']}-table; {ans_kind(ans).split(':')[0]})"


def eval_authtable(ctx, cases):
    ops, impl = [], []
    for c in cases:
        btok, ktok, _kv = leaves_of(c['hdr'])
        rec = impl_table_seq(c)
        head = f"{sx(c['method'])} {opt(c['hdr'])} {btok} {ktok}"
        o = []

        def call_tokens(call):
            return f"/ {call['front']} {call['enc']} {sx(call['realm'])} {ans_tokens(call['ans'])}"
        if c['object'] == 'one':
            body = ' '.join(call_tokens(call) for call in c['calls'])
            o.append(f'seqt leaf {head} unset {body}')
            o.append(f'seqt conc {head} unset {body}')
        else:
            for call in c['calls']:
                o.append(f'seqt leaf {head} unset {call_tokens(call)}')
                o.append(f'seqt conc {head} unset {call_tokens(call)}')
        nseq = len(o)
        for call, (granted, login, _obs, _exc, _lg) in zip(c['calls'], rec):
            senc = 'dflt' if call['front'] == 'digest' else call['enc']
            tail = (f"{senc} {sx(call['realm'])} {sx(c['method'])} {opt(c['hdr'])} {btok} {ktok} {1 if granted else 0} "
                    f"{opt(login)} {ans_tokens(call['ans'])}")
            o.append('spect leaf ' + tail)
            o.append('spect conc ' + tail)
        ops.append((o, nseq))
        impl.append(rec)
    answers = ctx.driver.batch('auth', [o for o, _ in ops])
    pname = {'check': 'check_auth', 'basic': 'basic_auth', 'digest': 'digest_auth'}
    for c, rec, (o, nseq), ans in zip(cases, impl, ops, answers):
        if any(a == 'bad-op' for a in ans):
            raise RuntimeError(f'driver rejected an authtable op for case {c!r}: {[x for x, a in zip(o, ans) if a == "bad-op"][:1]!r}')
        n = len(c['calls'])
        if c['object'] == 'one':
            mleaf, mconc = ans[0].split(' '), ans[1].split(' ')
        else:
            mleaf, mconc = [ans[2 * i] for i in range(n)], [ans[2 * i + 1] for i in range(n)]
        ok = True
        letters = []
        reported = False
        name = hdr_username(c['hdr'])
        for k, (call, (granted, login, obs, exc, lg)) in enumerate(zip(c['calls'], rec)):
            for how, toks in (('leaf tables', mleaf), ('concreteLeaves', mconc)):
                mobs, _, mlg = toks[k].rpartition(':')
                mobs = mobs.split('=', 1)[1]
                if mobs != obs or mlg != lg:
                    ok = False
                    ctx.disagree(c, {'where': f"authtable.call{k}.{call['front']}", 'impl': f'{obs} login={lg}' + (f' ({exc})' if exc else ''),
                                     'model': f'{mobs} login={mlg}', 'note': f'runCalls under {how}; table answer of this call: {ans_kind(call["ans"])}'})
                    break
            letters.append(seq_letter(mleaf[k].rpartition(':')[0].split('=', 1)[1]))
            if exc:
                ctx.count('authtable_exception', f"{ans_kind(call['ans']).split(':')[0]}->{exc}")
            a = ans[nseq + 2 * k]
            if not a.startswith('fail'):
                a = ans[nseq + 2 * k + 1]
            if not a.startswith('fail') or reported:
                continue
            reported = True
            clause = a[5:]
            # the same call on a fresh request with a fresh table object that only ever had this answer
            single = dict(c, calls=[call], object='one')
            fresh = impl_table_seq(single)[0]
            desc = (f"{pname[call['front']]}(realm={call['realm']!r}, users=<{c['shape']} table answering {call['ans']!r} during this call>, "
                    f"encrypt={call['enc']}) with Authorization={c['hdr']!r}")
            if (fresh[0], fresh[1]) == (granted, login):
                if clause == 'bypass':
                    ctx.violate(single, classify_table(c, k, 'bypass'),
                                f'{desc} granted access although the table holds no password for the user against which the credentials verify')
                else:
                    ctx.violate(single, classify_table(c, k, clause),
                                f'{desc}: well-formed credentials verifying against the table answer were not accepted (observed {obs})')
                continue
            verdict = 'granted' if granted and not fresh[0] else ('refused' if fresh[0] and not granted else 'login-differs')
            if k == 0:
                # first call with this table object on a new request, yet judged differently when repeated: state kept elsewhere
                ctx.violate(single, f'auth-verdict-depends-on-earlier-request({verdict}; {c["shape"]}-table)',
                            f'{desc} answered {obs!r} (granted={granted}, login={login!r}) as the first call on a new request with a new table '
                            f'object; repeated it answers {fresh[2]!r} (granted={fresh[0]}): the verdict depends on requests handled before; '
                            f'spec clause broken: {clause}')
                continue
            # the verdict depends on what happened before: minimise to one earlier call
            small, j = dict(c, calls=c['calls'][:k + 1]), k - 1
            for jj in range(k):
                r2 = impl_table_seq(dict(c, calls=[c['calls'][jj], call]))[-1]
                if (r2[0], r2[1]) == (granted, login):
                    small, j = dict(c, calls=[c['calls'][jj], call]), jj
                    break
            prev = c['calls'][j]
            change = change_kind(prev['ans'], call['ans'], name)
            before = 'grant' if rec[j][0] else 'refusal'
            if change == 'same-entry':
                sig = f'{SEQ_CLAUSE}({verdict}-after-{before}; {c["shape"]}-table)'
            else:
                sig = f'stale-table-answer({change}; {verdict}-after-{before}; {c["shape"]}-table; {"one-request" if c["object"] == "one" else "fresh-requests"})'
            ctx.violate(small, sig,
                        f"{desc} answered {obs!r} (granted={granted}, login={login!r}) after an earlier call during which the SAME table object "
                        f"answered {prev['ans']!r} had been answered {rec[j][2]!r}; with a table that only ever gave this call's answer the "
                        f"same call answers {fresh[2]!r} (granted={fresh[0]}) - the verdict must follow what the table answers NOW "
                        f"({change}); spec clause broken: {clause}")
        ctx.count('authtable_shape', c['shape'])
        ctx.count('authtable_object', c['object'])
        ctx.count('authtable_calls', n)
        ctx.count('authtable_answers', '>'.join(ans_kind(call['ans']).split(':')[0] for call in c['calls']))
        ctx.count('authtable_expected', '>'.join(letters))
        ctx.count('authtable_tag', c.get('tag', '?'))
        for x, y in zip(c['calls'], c['calls'][1:]):
            ctx.count('authtable_change', change_kind(x['ans'], y['ans'], name))
        for call in c['calls']:
            if call['ans']['t'] == 'nondict':
                ctx.count('authtable_nondict_value', call['ans']['value'])
        ctx.count('authtable_fronts', '>'.join(call['front'] for call in c['calls']))
        ctx.case(c, nontrivial=c['hdr'] is not None, validated=ok)


def shape_answer(shape, rng, users, name=None):
    """the answer a table of this shape gives when it holds `users` ([[u, p], ...])"""
    if shape in ('dict', 'dict-subclass', 'callable-dict'):
        return {'t': 'dict', 'users': users}
    if shape == 'callable-name':
        default = 'absent' if rng.random() < 0.7 else 'raises'
        return {'t': 'byname', 'default': default, 'entries': [[u, 'pw', p] for u, p in users]}
    if shape in ('not-dict', 'callable-other'):
        return {'t': 'nondict', 'value': name or rng.choice(sorted(TABLE_NONDICT))}
    if shape == 'callable-raises':
        return {'t': 'raises', 'exc': name or rng.choice(sorted(TABLE_EXC))}
    raise ValueError(shape)


def authtable_directed():
    """the same on every seed and in both tiers"""
    rnd = random.Random(0x7AB1E)
    cases = []
    tables = {'right': {'alice': 'wonder', 'root': 's3cret'}, 'changed': {'alice': 'changed', 'root': 's3cret'},
              'removed': {'root': 's3cret'}, 'empty': {}}
    hdrs = [('basic', 'GET', 'Basic ' + b64('alice:wonder')), ('basic', 'POST', 'Basic ' + b64('mallory:x')),
            ('digest', 'GET', seq_header_digest('alice', 'wonder', 'Site', 'GET', None)),
            ('digest', 'POST', seq_header_digest('alice', 'wonder', 'Site', 'POST', 'auth'))]

    def ans_for(shape, tname, default='absent'):
        users = [[u, p] for u, p in tables[tname].items()]
        if shape == 'callable-name':
            return {'t': 'byname', 'default': default, 'entries': [[u, 'pw', p] for u, p in users]}
        return {'t': 'dict', 'users': users}

    for scheme, method, hdr in hdrs:
        other = 'basic' if scheme == 'basic' else 'digest'
        enc = 'ident' if scheme == 'basic' else 'dflt'
        fronts = [('check', 'check'), (other, other), ('check', other), (other, 'check')]
        # content changes between the two calls: password changed / user removed / user added / nothing, every ordered pair
        for shape, default in (('dict', None), ('dict-subclass', None), ('callable-dict', None), ('callable-name', 'absent'),
                               ('callable-name', 'raises'), ('callable-mixed', 'absent')):
            for t1, t2 in itertools.product(tables, tables):
                for f1, f2 in (fronts[:1] if shape == 'dict-subclass' else fronts):
                    objs = ('one', 'fresh') if (f1, f2) == ('check', 'check') else ('one',)
                    for obj in objs:
                        if shape == 'callable-mixed':
                            a1, a2 = ans_for('callable-dict', t1), ans_for('callable-name', t2, default)
                            if rnd.random() < 0.5:
                                a1, a2 = ans_for('callable-name', t1, default), ans_for('callable-dict', t2)
                        else:
                            a1, a2 = ans_for(shape, t1, default), ans_for(shape, t2, default)
                        cases.append({'kind': 'authtable', 'method': method, 'hdr': hdr, 'shape': shape, 'object': obj,
                                      'tag': 'directed-content-change',
                                      'calls': [{'front': f1, 'enc': enc, 'realm': 'Site', 'ans': a1},
                                                {'front': f2, 'enc': enc, 'realm': 'Site', 'ans': a2}]})
        # tables that fail: before / after / instead of a good answer
        errs = [{'t': 'nondict', 'value': v} for v in sorted(TABLE_NONDICT)] + [{'t': 'raises', 'exc': e} for e in sorted(TABLE_EXC)] \
            + [{'t': 'byname', 'default': 'raises', 'entries': []}, {'t': 'byname', 'default': 'absent', 'entries': [['alice', 'raises', '']]}]
        good = [ans_for('callable-dict', 'right'), ans_for('callable-name', 'right')]
        for err in errs:
            for g in good:
                for seq in ([g, err], [err, g], [err, err], [g, err, g]):
                    for front in ('check', other):
                        cases.append({'kind': 'authtable', 'method': method, 'hdr': hdr, 'shape': 'callable-mixed',
                                      'object': rnd.choice(['one', 'one', 'fresh']), 'tag': 'directed-table-error',
                                      'calls': [{'front': front, 'enc': enc, 'realm': 'Site', 'ans': a} for a in seq]})
        for front in ('check', other):
            for v in sorted(TABLE_NONDICT):
                for shape in ('not-dict', 'callable-other'):
                    a = {'t': 'nondict', 'value': v}
                    cases.append({'kind': 'authtable', 'method': method, 'hdr': hdr, 'shape': shape, 'object': 'one',
                                  'tag': 'directed-' + shape, 'calls': [{'front': front, 'enc': enc, 'realm': 'Site', 'ans': a}] * 2})
            for e in sorted(TABLE_EXC):
                a = {'t': 'raises', 'exc': e}
                cases.append({'kind': 'authtable', 'method': method, 'hdr': hdr, 'shape': 'callable-raises', 'object': 'one',
                              'tag': 'directed-callable-raises', 'calls': [{'front': front, 'enc': enc, 'realm': 'Site', 'ans': a}] * 2})
    # without / with a degenerate header the table is never evaluated: nothing is granted, nothing raised by the table
    for hdr in (None, 'Basic', 'Digest username="alice"', 'Bearer abc'):
        for shape in ('not-dict', 'callable-other', 'callable-raises', 'callable-dict', 'callable-name'):
            a = shape_answer(shape, rnd, [['alice', 'wonder']])
            for front in ('check', 'basic', 'digest'):
                cases.append({'kind': 'authtable', 'method': 'GET', 'hdr': hdr, 'shape': shape, 'object': 'one',
                              'tag': 'directed-degenerate-header', 'calls': [{'front': front, 'enc': 'ident', 'realm': 'Site', 'ans': a}] * 2})
    return cases


def authtable_random(ctx):
    rng = ctx.rng
    cases = []
    for _ in range(750 * ctx.scale):
        enc = rng.choice(ENCS)
        realm = rng.choice(REALMS)
        method = rng.choice(METHODS)
        clear, users = gen_table(rng, enc)
        k = rng.random()
        digest = False
        if k < 0.45:
            hdr, tag = gen_basic(rng, clear, users)
        elif k < 0.95:
            digest = True
            hdr, tag = gen_digest(rng, clear, realm, method)
        else:
            hdr, tag = rng.choice(FIXED_HEADERS + [None]), 'fixed'
        shape = rng.choice(TABLE_SHAPES + ['callable-mixed', 'callable-name', 'callable-dict'])
        fixed_bad = None
        if shape in ('not-dict', 'callable-other'):
            fixed_bad = rng.choice(sorted(TABLE_NONDICT))
        elif shape == 'callable-raises':
            fixed_bad = rng.choice(sorted(TABLE_EXC))
        calls = []
        for _i in range(rng.choice([1, 2, 2, 3])):
            cl = dict(clear)
            m = rng.random()
            if m < 0.25:
                pass
            elif m < 0.45 and cl:
                del cl[rng.choice(sorted(cl))]
            elif m < 0.65 and cl:
                cl[rng.choice(sorted(cl))] = rng.choice(PWS + ['changed'])
            elif m < 0.80:
                cl[rng.choice(USERS + UNKNOWN)] = rng.choice(PWS)
            elif m < 0.90:
                cl = {}
            else:
                cl = {u: rng.choice(PWS) for u in rng.sample(USERS, rng.randint(1, 3))}
            e_call = enc if rng.random() < 0.7 else rng.choice(ENCS)
            e_store = e_call if rng.random() < 0.85 else rng.choice(ENCS)
            if digest and rng.random() < 0.8:
                e_store = 'ident'
            r_call = realm if rng.random() < 0.75 else rng.choice(REALMS)
            held = [[u, enc_store(e_store, u, p)] for u, p in cl.items()]
            if shape == 'callable-mixed':
                sub = rng.choice(['callable-dict', 'callable-dict', 'callable-name', 'callable-name', 'callable-other', 'callable-raises'])
                a = shape_answer(sub, rng, held)
            else:
                a = shape_answer(shape, rng, held, fixed_bad)
            if a['t'] == 'byname' and rng.random() < 0.15 and a['entries']:
                e = rng.choice(a['entries'])
                e[1], e[2] = rng.choice(['absent', 'raises']), ''
            calls.append({'front': rng.choice(['check', 'check', 'basic', 'digest']), 'enc': e_call, 'realm': r_call, 'ans': a})
        cases.append({'kind': 'authtable', 'method': method, 'hdr': hdr, 'shape': shape, 'object': rng.choice(['one', 'one', 'fresh']),
                      'tag': 'random:' + tag, 'calls': calls})
    return cases


def authtable_cases(ctx):
    return authtable_directed() + authtable_random(ctx)


def param_obligations(ctx):
    from circuits.web import _httpauth
    # the list of required Digest fields, read from the function's source
    req = None
    try:
        tree = ast.parse(textwrap.dedent(inspect.getsource(_httpauth._parseDigestAuthorization)))
        for node in ast.walk(tree):
            if isinstance(node, ast.Assign) and any(isinstance(t, ast.Name) and t.id == 'required' for t in node.targets):
                req = ast.literal_eval(node.value)
    except Exception as e:  # noqa: BLE001
        req = None
        detail = repr(e)
    if req is None:
        ctx.param('digest required-field list readable from _parseDigestAuthorization', False, 'not found')
    else:
        ans = ctx.driver.run('auth', ['required ' + ' '.join(sx(x) for x in req)])[0]
        ctx.param('digest required-field list of the code == CV.Auth.required', ans == 'ok', f'code has {req!r}')
    # uuid4().hex never contains '/': hypothesis `noSlash` of the session theorems
    hexes = [uuidmod.uuid4().hex for _ in range(50)]
    ok = all(len(h) == 32 and all(ch in '0123456789abcdef' for ch in h) for h in hexes)
    ctx.param("uuid4().hex is 32 hex digits (no '/'): hypothesis of C20.session_binding", ok, hexes[0])
    ans = ctx.driver.run('auth', [('spaces ' + ' '.join(map(str, PY_SPACES))).rstrip()])[0]
    ctx.param('{n | chr(n).isspace()} over all 0x110000 code points == CV.Auth.isSpace (str.strip in parse_http_list)',
              ans == 'ok', f'{len(PY_SPACES)} characters, driver: {ans}')
    # str.lower() on the scheme is modelled on ASCII: no non-ASCII character may lower into letters of basic / digest only
    bad = [n for n in range(128, 0x110000) if not (0xd800 <= n < 0xe000)
           and all(ch in 'basicdgest' for ch in chr(n).lower())]
    ctx.param("no non-ASCII character lower()s into letters of 'basic'/'digest' (schemeOf lowers ASCII only)", not bad,
              f'offenders: {[hex(n) for n in bad[:5]]}')
    supported = (getattr(_httpauth, 'MD5', None), getattr(_httpauth, 'MD5_SESS', None), getattr(_httpauth, 'AUTH', None))
    ctx.param('algorithm / qop literals MD5, MD5-sess, auth', supported == ('MD5', 'MD5-sess', 'auth'), repr(supported))


# ---------------------------------------------------------------------------------------

EVAL = {'leaf': eval_leaf, 'auth': eval_auth, 'authseq': eval_authseq, 'authtable': eval_authtable, 'md5': eval_md5, 'session': eval_session, 'sessionjar': eval_sessionjar, 'vhost': eval_vhost}


def run(ctx):
    ctx.rule = ('auth: fixed list of degenerate headers x 4 encrypt variants + systematic Digest grid (user known/unknown x '
                'password right/wrong/None x qop x algorithm x realm, each field dropped in turn) + random headers from the '
                'Basic/Digest grammar over random tables of 0-3 users + headers made by the Lean client models (Basic / RFC 2617 '
                'Digest; names, realms, nonces with quotes, commas, backslashes, non-ASCII); each case runs check_auth, basic_auth '
                'and digest_auth and is evaluated twice by the driver: with the leaf outcomes handed over, and under concreteLeaves '
                '(header text only); leaf: directed streams + random inputs for a2b_base64 (every byte value in two positions, '
                'padding in every position), the RFC 4648 encoder, utf-8 decode (23 lead bytes x 10 second bytes x 4 x 4) / encode, '
                'str.strip (every space character and near misses), parse_http_list / parse_keqv_list; '
                'authseq: 2-3 calls on ONE request object - all ordered pairs of 10 Basic / 8 Digest configurations (table x '
                'realm x encrypt, incl. the same one twice) x 9 front-end pairs x 7 headers + fixed triples (same on every seed '
                'and tier) + random variations of a random configuration; every call judged on its own; '
                'authtable: ONE users object per sequence, its answer set per call - every ordered pair of 4 table contents (right / '
                'password changed / user removed / empty) x 6 shapes (dict, dict subclass, callable->dict, callable(name) with None or '
                'KeyError for unknown names, callable changing shape) x front-end pairs x 4 headers (Basic, Digest with and without qop, '
                'unknown user) x {one request, fresh requests}; 14 failing answers (7 non-dict values, 5 exception types, by-name lookups '
                'that raise) before / after / instead of a good answer; non-callable non-dict objects; degenerate headers (table never '
                'evaluated); + random sequences of 1-3 calls over random tables, realms, encrypt variants; '
                'sessionjar: 4 configured cookie names x 7 other names (case variant, upper/lower, longer, prefixed, shorter, unrelated) x 3 '
                'presenters x 6 cookie arrangements + random histories with 0-3 cookies per request; '
                'session: all pairs over 3 addresses x 3 agents x 10 cookie shapes (exhaustive) + random histories of 2-8 '
                'requests; vhost: 6 gateway configurations x 3 remotes x 4 Host x 10 X-Forwarded-Host x 2 paths (exhaustive) '
                '+ random; non-trivial = a header / more than one request / an X-Forwarded-Host is present; distinct = distinct case')
    ctx.trusted += [
        'base64.decodebytes, parse_http_list/parse_keqv_list, urljoin: real stdlib outcomes are handed to the model (parameters of the theorems)',
        'the same leaves inside the model (CV.Model.AuthLeaves, `concreteLeaves`): Lean definitions written from binascii.c / '
        'urllib.request, compared with the real functions on every run (leaf cases, every header of the auth cases); the concrete '
        'theorems (basic_concrete, digest_concrete, ...) are about these definitions - their equality with CPython is validated, not proved',
        'CPython itself (binascii.a2b_base64, the utf-8 codec, str.strip, str.split) is not verified',
        'md5: theorems hold for every H; the driver instantiates H with CV.Md5, compared with hashlib.md5 on every run',
        'sha1 (session fingerprint): uninterpreted W; the recorded digest of the live call is handed to the model',
        'uuid4 replaced by a seeded double (module global circuits.web.sessions.uuid); ids are assumed unguessable/unique',
        'str.lower() on scheme and forwarded host modelled on ASCII (no non-ASCII character lowers into an ASCII letter of "basic"/"digest")',
        'SimpleCookie parsing / Morsel.OutputString: the model receives request.cookie (all names and values) as parsed by the real Request '
        'and is compared with response.cookie (names, values) after Sessions.request; cookie attributes (Path, Domain, ...) and the '
        'Set-Cookie header text are stdlib and not modelled',
        'user-table doubles: one Python object per sequence whose state the harness sets before each call (a dict mutated in place, '
        'functions with the real signatures `()`, `(username)`, `(*args)`); by-name callables return str or None or raise',
        'Lean String.fromUTF8? == bytes.decode("utf-8") (validated on the generated invalid sequences); CV.Auth.utf8Decode likewise (utf8dec leaf cases)',
        'header text is a Python str without lone surrogates (List Char); request headers arrive that way from the HTTP parser',
    ]
    ctx.assumptions += [
        'user tables map str to str: a dict, a callable returning one, a callable taking the user name and returning str / None; anything '
        'else (non-dict object, callable returning a non-dict, callable raising) must not authenticate',
        'a request that fails with an exception is refused (answered with an error page by the dispatcher)',
        'Digest nonce freshness and uri == request line are not part of the statement (the code checks neither)',
        'trusted_gateways=None means "no restriction" (documented default)',
    ]
    param_obligations(ctx)
    groups = [('md5', md5_cases(ctx)), ('leaf', leaf_cases(ctx)), ('auth', auth_cases(ctx) + client_cases(ctx)), ('authseq', authseq_cases(ctx)), ('authtable', authtable_cases(ctx)),
              ('session', session_cases(ctx)), ('sessionjar', sessionjar_cases(ctx)), ('vhost', vhost_cases(ctx))]
    corpus = ctx.corpus()
    for c in corpus:
        EVAL[c['kind']](ctx, [c])
    for kind, cases in groups:
        for i in range(0, len(cases), 300):
            EVAL[kind](ctx, cases[i:i + 300])
            if ctx.time_up():
                break


def search(ctx):
    run(ctx)


def replay(ctx, case):
    EVAL[case['kind']](ctx, [case])

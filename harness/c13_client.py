"""
C13, client component tie: the real `circuits.web.client.Client` (request handler, parse_url, connect /
close handling, `_on_response`) with its transport (`TCPClient`) replaced by a double, against
CV.Model.HttpClient through the `httpclient` driver machine.

A case is a *session*: successive exchanges on one client; an exchange = one `request(method, url, body,
headers)` event, then the bytes of one response from C13's response grammar delivered as `read` events
cut in some way.  Observed per step (what an observer of the component sees, nothing private): the
`connect` / `write` / `close` events that reach the transport, the `response` events (status, version,
headers, body), the exception a `request` raises, and the value the `request` event ends with.

Spec on impl (C; the property statement for the client component):
  (1) the `response` events of a session do not depend on how the response bytes were cut
      (compared with one-piece delivery of the same session);
  (2) exactly one `response` event per response, and the k-th `request` event's value *is* the k-th
      response object (identity);
  (3) the bytes the client wrote for a request, read by the real server-side `HttpParser`, are one
      complete request with the method, target (path + query, computed from the URL's components by the
      generator, not by `urlparse`), Host, headers and body the application asked for.
Correspondence (B): every step's events equal the model's (`creq` / `cread`), the request bytes read by
the model's server-side parser with the concrete lexers (`cback`) give the same request, `parse_url`
alone (`curl`) on a mutation stream of URLs, `str.title()` (`ctitle`).
"""
from framework import cuts_to_segments, hx, unhx

import c13

CRLF = b'\r\n'
DRAIN_LIMIT = 5000

SCHEMES = ['http', 'http', 'http', 'https', 'https', 'HTTP', 'Https']
HOSTS = ['h', 'example.org', 'Example.ORG', 'localhost', '10.0.0.1', 'a-b.c', 'WWW.x.io']
PATHSEGS = ['a', 'b1', 'index.html', 'x-y', 'v2', 'data_set', 'A', 'a.b', '~u', 'p:q', 'k=v', 'a,b']
QUERIES = ['x=1', 'x=1&y=2', 'q=a+b', 'a=x%20y', 'k', 'a=1;b=2', 'u=/p?z']
UNAMES = ['X-A', 'Accept', 'User-Agent', 'x-trace-id', 'Cache-Control', 'X-Long-Header-Name', 'Referer', 'cookie',
          'x-a', 'ACCEPT', 'x_b', 'X-1a', 'Connection']
UVALS = ['v', 'text/html, */*;q=0.8', 'a b c', 'MiXeD', '1', 'k=v; k2=v2', 'x' * 40, '', 'keep-alive', 'ab\tcd']


# ---------------------------------------------------------------------------------------
# the rig
# ---------------------------------------------------------------------------------------

class Rig:
    """a real Client on a transport double; `log` = the observable events of the current step"""

    def __init__(self):
        import circuits.web.client as cmod
        from circuits import BaseComponent, handler
        from circuits.net.events import connected, disconnected
        rig = self
        self.cmod = cmod
        self.log = []
        self.objs = []

        class Transport(BaseComponent):
            def __init__(self, channel='client'):
                super().__init__(channel=channel)
                self.connected = False

            @handler('connect')
            def _cn(self, host=None, port=None, secure=None, *a, **k):
                rig.log.append(('C', host, port, bool(secure)))
                self.connected = True
                self.fire(connected(host, port))

            @handler('write')
            def _w(self, data):
                rig.log.append(('W', data.encode('latin-1') if isinstance(data, str) else bytes(data)))

            @handler('close')
            def _c(self, *a):
                rig.log.append(('X',))
                self.connected = False
                self.fire(disconnected())

        class App(BaseComponent):
            @handler('response', channel='client', priority=0.5)
            def _r(self, res):
                import httputil
                rig.objs.append(res)
                rig.log.append(('R', res.status, list(res.version) if res.version else None,
                                httputil.canon_headers(res.headers), res.body.getvalue()))

            @handler('exception', channel='*', priority=10)
            def _e(self, etype, evalue, tb, handler=None, fevent=None):
                rig.log.append(('E', etype.__name__, str(evalue)))

        self._saved = cmod.TCPClient
        cmod.TCPClient = Transport
        try:
            self.app = App()
            self.client = cmod.Client().register(self.app)
        finally:
            cmod.TCPClient = self._saved
        self.drain()
        self.log.clear()

    def drain(self):
        n = 0
        m = self.app
        while len(m) or m._tasks:
            m.tick()
            n += 1
            if n > DRAIN_LIMIT:
                raise RuntimeError('queue does not drain')

    def step(self, event):
        self.log = []
        v = self.app.fire(event, 'client')
        self.drain()
        return v, self.log

    def request(self, method, url, body, headers):
        return self.step(self.cmod.request(method, url, body, headers))

    def read(self, data):
        from circuits.net.events import read
        return self.step(read(data))[1]


def run_session(exchanges, cut=True):
    """-> list per exchange: dict(req=[events], reads=[[events] per segment], value_ok, connected)"""
    rig = Rig()
    out = []
    for x in exchanges:
        body = None if x['body'] is None else unhx(x['body'])
        hdrs = None if x['headers'] is None else dict((k, v) for k, v in x['headers'])
        n0 = len(rig.objs)
        v, ev = rig.request(x['method'], x['url'], body, hdrs)
        rec = {'req': ev, 'reads': [], 'value': None, 'connected': None}
        if not any(e[0] == 'E' for e in ev):
            resp = unhx(x['resp'])
            for seg in cuts_to_segments(resp, x['cuts'] if cut else []):
                rec['reads'].append(rig.read(seg))
            mine = rig.objs[n0:]
            rec['value'] = ('is-own-response' if len(mine) == 1 and v.value is mine[0] else
                            f'{len(mine)} response event(s), value {"is" if any(v.value is o for o in rig.objs) else "is not"} '
                            f'a response object')
        rec['connected'] = bool(rig.client.connected)
        out.append(rec)
    return out


# ---------------------------------------------------------------------------------------
# generator
# ---------------------------------------------------------------------------------------

def gen_url(rng, bad=False, unsup=True):
    """-> (url, expect) ; expect = dict(host, port, target, secure) computed from the components, or None when the
    generator makes no claim (malformed on purpose, path parameters, port of the other scheme)"""
    scheme = rng.choice(SCHEMES)
    host = rng.choice(HOSTS)
    secure = scheme.lower() == 'https'
    dflt = 443 if secure else 80
    port = rng.choice([None, None, None, dflt, 8080, 8000, 65535, 1])
    path = ''
    if rng.random() < 0.85:
        path = '/' + '/'.join(rng.choice(PATHSEGS) for _ in range(rng.randint(0, 3)))
        if rng.random() < 0.15:
            path += '/'
    query = None
    if rng.random() < 0.45:
        query = rng.choice(QUERIES) if rng.random() < 0.9 else ''
    frag = rng.choice([None, None, None, 'top', ''])
    claim = True
    if bad:
        claim = False
        k = rng.randrange(9)
        if k == 6 and not unsup:
            k = rng.choice([0, 2])
        if k == 0:
            scheme = rng.choice(['ftp', 'ws', 'httpx', 'h+t.p-1', '1http', ''])
        elif k == 1:
            host = ''
        elif k == 2:
            port = rng.choice(['0', '99999', '65536', '80a', '', '00080', '443', '80', '+80'])
        elif k == 3:
            path = path + ';v=1' + rng.choice(['', '/z', ';w'])
        elif k == 4:
            path = rng.choice(['', ';p', 'x'])
        elif k == 5:
            query = rng.choice(['a#b', '?', 'x=1?y=2'])
        elif k == 6:
            host = rng.choice(['u@h', '[::1]', 'h%25', 'h\\x', 'h h'])
        elif k == 7:
            scheme, host = rng.choice([('http:', 'h'), ('http', '/h'), ('', 'h')])
        else:
            port = rng.choice([80, 443])
    url = (scheme + ':' if scheme else '') + '//' + host
    if port is not None:
        url += ':' + str(port)
    url += path
    if query is not None:
        url += '?' + query
    if frag is not None:
        url += '#' + frag
    if not claim:
        return url, None
    target = (path or '/') + ('?' + query if query else '')
    hostv = host.lower() + ('' if port in (None, 80, 443) else ':%d' % port)
    return url, {'host': host.lower(), 'port': port or dflt, 'target': target, 'secure': secure, 'hostv': hostv}


def gen_headers(rng):
    if rng.random() < 0.25:
        return None
    d = {}
    for _ in range(rng.choice([0, 1, 1, 2, 3, 5])):
        d[rng.choice(UNAMES)] = rng.choice(UVALS)
    if rng.random() < 0.15:
        d[rng.choice(['Host', 'host', 'HOST'])] = rng.choice(['other.example', 'h:81'])
    if rng.random() < 0.1:
        d[rng.choice(['Content-Length', 'content-length'])] = rng.choice(['0', '7', '999'])
    return [[k, v] for k, v in d.items()]


def gen_resp(rng, k):
    mode = rng.choice(['clen', 'clen', 'clen0', 'chunked', 'chunked', 'bare204'])
    code, reason = rng.choice(c13.STATUS)
    ver = rng.choice(['1.1', '1.1', '1.0'])
    pairs = [('X-Seq', str(k))]
    conn = rng.choice([None, None, None, 'close', 'Close', 'CLOSE', 'keep-alive', 'close, x'])
    if conn is not None:
        pairs.append((rng.choice(['Connection', 'connection']), conn))
    body = b''
    if mode == 'clen':
        payload = c13.gen_body_bytes(rng, 30) or b'y'
        pairs.append((rng.choice(['Content-Length', 'content-length']), str(len(payload))))
        body = payload
    elif mode == 'clen0':
        pairs.append(('Content-Length', '0'))
    elif mode == 'chunked':
        pairs.append(('Transfer-Encoding', rng.choice(c13.TE_VARIANTS)))
        body = c13.gen_chunked(rng, c13.gen_body_bytes(rng, 30))
    else:
        code, reason, pairs = 204, 'No Content', []
    hb = c13.gen_headers(rng, pairs) if pairs else b''
    return f'HTTP/{ver} {code} {reason}'.encode() + CRLF + (hb + CRLF if hb else b'') + CRLF + body


def gen_exchange(rng, k, bad_url=0.12):
    url, expect = gen_url(rng, bad=rng.random() < bad_url, unsup=rng.random() < 0.1)
    hdrs = gen_headers(rng)
    body = rng.choice([None, None, b'', c13.gen_body_bytes(rng, 30), c13.gen_body_bytes(rng, 30)])
    if body is None and hdrs:
        hdrs = [h for h in hdrs if h[0].lower() != 'content-length']   # a promise the application does not keep
    resp = gen_resp(rng, k)
    return {'method': rng.choice(c13.METHODS), 'url': url, 'body': None if body is None else hx(body), 'headers': hdrs,
            'expect': expect, 'resp': hx(resp), 'cuts': []}


def gen_cuts(rng, n):
    mode = rng.random()
    if mode < 0.15 or n < 2:
        return []
    if mode < 0.3:
        return list(range(1, n))
    if mode < 0.55:
        return [rng.randrange(1, n)]
    return sorted(rng.sample(range(1, n), min(rng.randint(2, 6), n - 1)))


FIXED = [
    {'method': 'GET', 'url': 'http://Example.org:8080/a/b?x=1#f', 'body': None, 'headers': [['x-a', 'v']],
     'expect': {'host': 'example.org', 'port': 8080, 'target': '/a/b?x=1', 'secure': False, 'hostv': 'example.org:8080'},
     'resp': hx(b'HTTP/1.1 200 OK\r\nContent-Length: 2\r\n\r\nhi'), 'cuts': []},
    {'method': 'POST', 'url': 'https://h', 'body': hx(b'abc'), 'headers': [['content-length', '7'], ['Host', 'zz']],
     'expect': {'host': 'h', 'port': 443, 'target': '/', 'secure': True, 'hostv': 'h'},
     'resp': hx(b'HTTP/1.1 200 OK\r\nConnection: Close\r\nTransfer-Encoding: chunked\r\n\r\n2\r\nhi\r\n0\r\n\r\n'), 'cuts': []},
    {'method': 'PUT', 'url': 'http://h/x', 'body': hx(b''), 'headers': None,
     'expect': {'host': 'h', 'port': 80, 'target': '/x', 'secure': False, 'hostv': 'h'},
     'resp': hx(b'HTTP/1.1 204 No Content\r\n\r\n'), 'cuts': []},
]


def gen_cases(ctx):
    rng = ctx.rng
    sc = ctx.scale
    cases = []
    # the fixed session under every single cut of every response, and byte-at-a-time
    lens = [len(unhx(x['resp'])) for x in FIXED]
    for k, n in enumerate(lens):
        for cuts in [[c] for c in range(1, n)] + [list(range(1, n))]:
            xs = [dict(x) for x in FIXED]
            xs[k]['cuts'] = cuts
            cases.append({'kind': 'webclient', 'exchanges': xs})
    for _ in range(22 * sc):
        k = rng.choice([1, 2, 2, 3, 3, 4, 5])
        base = [gen_exchange(rng, i) for i in range(k)]
        for _ in range(4):
            xs = [dict(x) for x in base]
            for x in xs:
                x['cuts'] = gen_cuts(rng, len(unhx(x['resp'])))
            cases.append({'kind': 'webclient', 'exchanges': xs})
    # every single cut of one generated response in a two-exchange session
    for _ in range(2 * sc):
        base = [gen_exchange(rng, i, bad_url=0) for i in range(2)]
        k = rng.randrange(2)
        n = len(unhx(base[k]['resp']))
        for c in range(1, n):
            xs = [dict(x) for x in base]
            xs[k]['cuts'] = [c]
            cases.append({'kind': 'webclient', 'exchanges': xs})
    return cases


# ---------------------------------------------------------------------------------------
# evaluation
# ---------------------------------------------------------------------------------------

def err_kind(msg):
    return {'URL must be absolute': 'absolute', 'Invalid URL scheme': 'scheme'}.get(msg, 'port')


def show_req(ev):
    """impl events of a request step in the driver's notation"""
    out = []
    for e in ev:
        if e[0] == 'C':
            out.append(f'C:{hx(e[1].encode("latin-1"))}:{e[2]}:{int(e[3])}')
        elif e[0] == 'W':
            out.append(f'W:{hx(e[1])}')
        elif e[0] == 'X':
            out.append('X')
        elif e[0] == 'E':
            out.append('E:' + (err_kind(e[2]) if e[1] == 'ValueError' else e[1]))
        else:
            out.append(repr(e))
    return ' '.join(out) or 'none'


def decode_model_events(ans):
    """model events of a read step -> comparable with the impl's ('R', status, version, headers, body) / ('X',)"""
    if ans == 'none':
        return []
    out = []
    for tok in ans.split():
        if tok == 'X':
            out.append(('X',))
        elif tok.startswith('R:'):
            _, fl, hb, body = tok.split(':')
            f = c13.lex_first(1, unhx(fl)) if fl != '~' else None
            h = c13.lex_hdrs(unhx(hb)) if hb != '~' else {'dec': []}
            if f is None or h is None:
                out.append(('R?', tok))
            else:
                out.append(('R', f['dec'][4], f['dec'][3], h['dec'], unhx(body)))
        else:
            out.append(('?', tok))
    return out


def server_reading(data):
    """the bytes the client wrote, read by the real server-side parser -> dict or a string saying what is wrong"""
    import httputil
    from circuits.web.parsers.http import HttpParser
    p = HttpParser(0, True)
    try:
        n = p.execute(data, len(data))
    except Exception as e:                                    # noqa: BLE001
        return f'server parser raised {type(e).__name__}'
    if p.errno is not None:
        return f'server parser error {p.errno}: {p.errstr}'
    if not p.is_message_complete():
        return 'incomplete request'
    if n != len(data):
        return f'server parser consumed {n} of {len(data)} bytes'
    return {'method': p.get_method(), 'url': p.get_url(), 'version': list(p.get_version()),
            'headers': httputil.canon_headers(p.get_headers()), 'body': p.recv_body()}


def title(s):
    return str(s).title()


def judge_request(x, written):
    """clause (3): -> None or (signature detail, text)"""
    exp = x['expect']
    if exp is None:
        return None
    r = server_reading(b''.join(written))
    if isinstance(r, str):
        return ('unreadable', r)
    body = b'' if x['body'] is None else unhx(x['body'])
    if r['method'] != x['method']:
        return ('method', f"method {r['method']!r}, asked {x['method']!r}")
    if r['url'] != exp['target']:
        return ('target', f"request target {r['url']!r}, asked {exp['target']!r} (url {x['url']!r})")
    if r['version'] != [1, 1]:
        return ('version', f"version {r['version']!r}")
    if r['body'] != body:
        return ('body', f"body {r['body']!r}, asked {body!r}")
    got = dict(r['headers'])
    want = {}
    for k, v in (x['headers'] or []):
        want[title(k).lower()] = v
    want.setdefault('host', exp['hostv'])
    if x['body'] is not None:
        want['content-length'] = str(len(body))
    for k, v in want.items():
        if got.get(k) != v.strip():
            return ('header ' + ('host' if k == 'host' else 'content-length' if k == 'content-length' else 'user'),
                    f'header {k!r}: sent {got.get(k)!r}, asked {v!r}')
    if len(r['headers']) != len(want):
        return ('extra-header', f"sent {r['headers']!r}, asked {sorted(want.items())!r}")
    return None


def responses_of(res):
    return [[e for rd in rec['reads'] for e in rd if e[0] == 'R'] for rec in res]


def eval_sessions(ctx, cases):
    ops, keep = [], []
    one_cache = {}
    for c in cases:
        xs = c['exchanges']
        with ctx.guard(c):
            res = run_session(xs)
        key = repr([(x['method'], x['url'], x['body'], x['headers'], x['resp']) for x in xs])
        if key not in one_cache:
            one_cache[key] = run_session(xs, cut=False)
        one = one_cache[key]
        # (1) segmentation independence of the response events
        if responses_of(res) != responses_of(one):
            msgs = [unhx(x['resp']) for x in xs]

            def fails_single(k, cut, xs=xs, one=one):
                ys = [dict(x, cuts=[]) for x in xs]
                ys[k]['cuts'] = [cut]
                return responses_of(run_session(ys)) != responses_of(one)
            sig = 'webclient:' + c13.classify(msgs, [x['cuts'] for x in xs], fails_single)
            ctx.violate(c, sig, f'one piece: {[[(e[1], e[4]) for e in r] for r in responses_of(one)]!r}; cut at '
                                f'{[x["cuts"] for x in xs]!r}: {[[(e[1], e[4]) for e in r] for r in responses_of(res)]!r}')
        # (2) one response per response, the k-th belongs to the k-th request
        for k, rec in enumerate(res):
            if rec['value'] not in (None, 'is-own-response'):
                ctx.violate(c, 'webclient:pairing', f'exchange {k}: {rec["value"]}')
                break
        # (3) the request bytes
        for k, (x, rec) in enumerate(zip(xs, res)):
            if any(e[0] == 'E' for e in rec['req']):
                continue
            bad = judge_request(x, [e[1] for e in rec['req'] if e[0] == 'W'])
            if bad:
                ctx.violate(c, f'webclient:request-bytes({bad[0]})', f'exchange {k}: {bad[1]}')
                break
        o = ['cnew']
        plan = []
        for x, rec in zip(xs, res):
            hs = x['headers'] or []
            o.append('creq %s %s %s %d %s' % (hx(x['method'].encode('latin-1')), hx(x['url'].encode('utf-8')),
                                              '~' if x['body'] is None else hx(unhx(x['body'])), len(hs),
                                              ' '.join(f'{hx(k.encode("utf-8"))} {hx(v.encode("utf-8"))}' for k, v in hs)))
            plan.append(('req', rec['req']))
            written = b''.join(e[1] for e in rec['req'] if e[0] == 'W')
            if written:
                o.append('cback ' + hx(written))
                plan.append(('back', written))
            if not any(e[0] == 'E' for e in rec['req']):
                for seg, ev in zip(cuts_to_segments(unhx(x['resp']), x['cuts']), rec['reads']):
                    o.append('cread ' + hx(seg))
                    plan.append(('read', ev))
            o.append('cstate')
            plan.append(('state', rec['connected']))
        ops.append(o)
        keep.append((c, plan))
    answers = ctx.driver.batch('httpclient', ops)
    for (c, plan), ans in zip(keep, answers):
        ok = True
        xs = c['exchanges']
        for i, ((what, impl), a) in enumerate(zip(plan, ans[1:])):
            if what == 'req':
                if 'U' in a.split():
                    ctx.count('webclient_unsupported', 'request outside the model domain')
                    ok = None
                    break
                good = show_req(impl) == a
                shown = show_req(impl)
            elif what == 'back':
                r = server_reading(impl)
                if isinstance(r, str):
                    shown = 'bad' if 'error' in r or 'raised' in r else 'incomplete'
                else:
                    shown = 'ok %s %s %d %d %s %d %s' % (
                        hx(r['method'].encode('latin-1')), hx(r['url'].encode('latin-1')), r['version'][0], r['version'][1],
                        hx(r['body']), len(r['headers']), ' '.join(f'{k} {v}' for k, v in r['headers']))
                    f = a.split()
                    if f[0] == 'ok':
                        n = int(f[6])
                        fs = {}
                        for j in range(n):      # Headers: one key per name, values of repeated names joined
                            k_, v_ = unhx(f[7 + 2 * j]).decode('latin-1').lower(), unhx(f[8 + 2 * j]).decode('latin-1')
                            fs[k_] = fs[k_] + ', ' + v_ if k_ in fs else v_
                        a = ' '.join(f[:6]) + ' %d %s' % (len(fs), ' '.join(f'{k} {v}' for k, v in sorted(fs.items())))
                good = shown == a
            elif what == 'read':
                try:
                    m = decode_model_events(a)
                except c13.Unsupported:
                    ctx.count('webclient_unsupported', 'response outside the lexer model')
                    ok = None
                    break
                good = m == impl
                shown = impl
            else:
                good = a == str(int(impl))
                shown = int(impl)
            if not good:
                ok = False
                ctx.disagree(c, {'where': 'webclient.' + what, 'step': i, 'impl': repr(shown), 'model': a})
                break
        if ok is None:
            continue
        ctx.count('webclient_exchanges', len(xs))
        for x in xs:
            ctx.count('webclient_url', 'claimed' if x['expect'] else 'malformed/odd (model only)')
            ctx.count('webclient_body', 'none' if x['body'] is None else 'empty' if x['body'] == '-' else 'bytes')
            ctx.count('webclient_user_headers', 'None' if x['headers'] is None else min(len(x['headers']), 4))
            n = len(unhx(x['resp']))
            ctx.count('webclient_cuts', 'one-piece' if not x['cuts'] else 'byte-at-a-time' if len(x['cuts']) == n - 1
                      else 'single' if len(x['cuts']) == 1 else 'k-cuts')
            for cut in x['cuts'][:4]:
                ctx.count('webclient_cut_class', c13.cut_class(unhx(x['resp']), cut))
        for what, impl in plan:
            if what == 'req':
                ctx.count('webclient_request_outcome', 'error:' + err_kind(impl[0][2]) if impl and impl[0][0] == 'E'
                          else ('connect+' if impl and impl[0][0] == 'C' else '') + 'write')
            elif what == 'read' and impl:
                ctx.count('webclient_read_outcome', 'response+close' if ('X',) in impl else 'response')
        ctx.case(c, nontrivial=any(x['cuts'] for x in xs) or len(xs) > 1, validated=ok)


def eval_urls(ctx, urls):
    """parse_url alone (B): mutation stream of URLs"""
    from circuits.web.client import parse_url
    ans = ctx.driver.run('httpclient', ['curl ' + hx(u.encode('utf-8')) for u in urls])
    for u, a in zip(urls, ans):
        c = {'kind': 'weburl', 'url': u}
        try:
            host, port, path, secure = parse_url(u)
            impl = f'ok {hx(host.encode("utf-8"))} {port} {hx(path.encode("utf-8"))} {int(secure)}'
        except ValueError as e:
            impl = 'err ' + err_kind(str(e))
        if a == 'unsupported':
            ctx.count('weburl_outcome', 'unsupported (not compared)')
            continue
        ctx.count('weburl_outcome', impl.split()[0] + (' ' + impl.split()[1] if impl.startswith('err') else ''))
        if impl != a:
            ctx.disagree(c, {'where': 'parse_url', 'impl': impl, 'model': a})
        ctx.case(c, nontrivial=True, validated=impl == a)


def params(ctx):
    names = sorted(set(UNAMES) | {'Host', 'host', 'HOST', 'Content-Length', 'content-length', 'a1b', 'x--y', '1abc', "it's", 'aB-cD_eF'})
    ans = ctx.driver.run('httpclient', ['ctitle ' + hx(n.encode()) for n in names])
    bad = [n for n, a in zip(names, ans) if unhx(a).decode() != n.title()]
    ctx.param('str.title() on the ASCII header names agrees with CV.Http.Client.titleA', not bad, repr(bad))


def run(ctx):
    ctx.trusted += [
        'client component tie: TCPClient replaced by a double whose connect succeeds at once and whose close disconnects at '
        'once; the request bytes are judged by the real server-side HttpParser; URLs with user info, IPv6 literals, `%` or '
        'non-ASCII, header values that are not str: outside the model (counted); Host for a port that is the default of the '
        'other scheme and dropped path parameters are compared with the model only (no claim about what the application asked)',
    ]
    if not ctx.searching:
        params(ctx)
    rng = ctx.rng
    urls = [gen_url(rng, bad=rng.random() < 0.6)[0] for _ in range(400 * ctx.scale)]
    eval_urls(ctx, urls)
    cases = gen_cases(ctx)
    for i in range(0, len(cases), 200):
        eval_sessions(ctx, cases[i:i + 200])
        if ctx.time_up():
            return


def replay(ctx, case):
    if case['kind'] == 'weburl':
        eval_urls(ctx, [case['url']])
    else:
        eval_sessions(ctx, [case])

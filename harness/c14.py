"""
C14 - Any bytes on an HTTP connection: wait or one valid error response, never a crash.

A case is a script on one or two connections of the real `circuits.web.http.HTTP` component:
    steps   ['r', sock, hex]   read(sock, data)
            ['rd', sock, hex]  read(sock, data) and disconnect(sock) queued together
            ['d', sock]        disconnect(sock)
    beh     what the application's request handler does: ok | raise | http403 | badbody
    secure  the server's `secure` attribute
The harness plays the network server's part: once the component fired close(sock) no further
read(sock, ..) is delivered (the model answers `late`), and every script ends with the
disconnect of every socket.

C (spec on impl, the property statement, judged on the implementation alone):
  (i)   per delivered read the write/close events on the socket are nothing, closes only, or bytes
        that the RFC reader of CV.HttpSpec (`one` op: CV.Http14.oneResponse) *and* Python's
        http.client decode as exactly one response with nothing left over, closed iff announced,
        nothing after the close; a response the component produced on its own is 3xx/4xx/5xx;
  (ii)  no `request` event in a read that the component answered with its own rejection;
        at most one request event per read;
  (iii) every exception event is answered (response or close) in the same read; the loop still
        dispatches a probe event afterwards; nothing escapes the loop;
  (iv)  after disconnect(sock) and quiescence neither `_buffers` nor `_clients` has an entry for
        the socket; both tables are empty at the end of the script;
  (v)   unambiguously malformed framing (`strict_head`, an RFC 7230 reading of the byte stream written without
        looking at the implementation; no model involved): a request without Transfer-Encoding whose
        Content-Length field value is not a non-negative decimal integer (3.3.2) or that carries Content-Length
        values that differ (3.3.3 (4)) is not dispatched and not answered 2xx in the read that completes its
        header block - `malformed-dispatched(content-length)`; and no later read on that connection (the bytes
        of the announced body) produces a request event or a response of its own - `body-parsed-as-request`.
        Only messages whose start is known (first on the connection, or after strictly framed messages that
        ended at a read boundary) and whose header block is plain (printable ASCII, no escapes, no folding,
        token names) are judged; values Python's int() takes (sign, `1_0`) and repeated identical values are
        not judged (documented leniency).
  (vi)  the same for chunked framing (`strict_chunks`, RFC 7230 4.1: chunk-size = 1*HEXDIG, read off the delivered
        bytes; neither the model nor the implementation's lexer takes part): a request with `Transfer-Encoding:
        chunked` (one field, no Content-Length) in which, after strictly framed chunks, a chunk-size line arrives that
        is no number at all (`zz`, empty, `1g`, `-`, `0x`, `3_`, `1 2`) or a negative number (`-1`, `-ff;ext`, ` -5`) is
        not dispatched and not answered 2xx - `malformed-dispatched(chunk-size)` - neither in the read that completes
        that line nor in a later one, whatever follows the line and however the bytes are cut into reads, and the
        bytes that follow it produce no request event / response of their own - `body-parsed-as-request`.  Not judged
        (leniency of the code, counted in the histogram `framing_oracle`): lines that Python's int(x, 16) reads as a
        number >= 0 although they are not 1*HEXDIG (`+3`, ` 3`, `3 `, `0x3`, `1_0`, `-0`: the code carries on with that
        number).  (Before `fix: a negative chunk size is an invalid chunk size` the parser used a negative size as a
        slice bound and dispatched e.g. `-2 CRLF <anything> CRLF` | `0 CRLF CRLF`: corpus chunk-negative-size-slice-dispatch.)
B (correspondence): CV.Http14.step (machine `http14`) on the same script, lexers and their Python
exceptions instantiated by the implementation's own leaf functions evaluated separately on the
candidate byte strings: outcome kind, exit, status, request seen by the handler, table membership
and sizes, closing flag after every step; bytes of every error response (status line incl.
version, header order, framing headers, write segmentation, close) against
`respond rq (errResp ..)` with the reason phrase from HTTP_STATUS_CODES and the page / Date /
Location texts taken from the implementation's output.
"""
import http.client
import io
import re

from framework import ddmin, hx, unhx
import c13

CRLF = b'\r\n'
CRLF2 = b'\r\n\r\n'
DEFAULT_CT = b'text/html; charset=utf-8'


# ---------------------------------------------------------------------------------------
# rig
# ---------------------------------------------------------------------------------------

def make_rig(beh, secure):
    import httputil
    from circuits import handler
    from circuits.web.exceptions import Forbidden

    def reply(req, res):
        if beh == 'raise':
            raise RuntimeError('boom')
        if beh == 'http403':
            raise Forbidden()
        if beh == 'badbody':
            return [1]
        return b'ok'

    class Rig14(httputil.ServerRig):
        secure = False
        probes = 0

        @handler('c14_probe')
        def _on_probe(self):
            self.probes += 1

    rig = Rig14(reply=reply)
    rig.secure = bool(secure)
    return rig


BEH_MODEL = {'raise': 'raise:500', 'http403': 'raise:403', 'badbody': 'raise:500'}


def run_impl(case):
    """-> (records per step, final dict)"""
    import httputil
    from circuits import Event
    from circuits.net.events import disconnect, read
    rig = make_rig(case['beh'], case.get('secure', 0))
    recs = []
    closing = set()
    final = {'crash': None, 'alive': True}
    try:
        http = rig.http
        for st in case['steps']:
            op, ident = st[0], st[1]
            sock = rig.sock(ident)
            rec = {'op': op, 'sock': ident}
            if op in ('r', 'rd'):
                if ident in closing:
                    rec['kind'] = 'late'
                    if op == 'rd':
                        rig.fire(disconnect(sock), 'web')
                        httputil.drain(rig)
                        closing.discard(ident)
                        rec['disc'] = True
                    rec.update(inb=int(sock in http._buffers), inc=int(sock in http._clients),
                               nb=len(http._buffers), nc=len(http._clients), closing=int(ident in closing))
                    recs.append(rec)
                    continue
                data = unhx(st[2])
                r0, o0, e0 = len(rig.requests), len(rig.out), len(rig.errors)
                try:
                    rig.fire(read(sock, data), 'web')
                    if op == 'rd':
                        rig.fire(disconnect(sock), 'web')
                    httputil.drain(rig)
                except BaseException as e:  # noqa: BLE001 - anything leaving the loop is the finding
                    final['crash'] = f'{type(e).__name__}: {e}'
                    rec['kind'] = 'crash'
                    recs.append(rec)
                    break
                outs = [o for o in rig.out[o0:] if o[1] == ident or (o[0] == 'close' and o[1] is None)]
                rec['reqs'] = [r for i, r in rig.requests[r0:] if i == ident]
                rec['outs'] = outs
                rec['errors'] = rig.errors[e0:]
                rec['data'] = data
                if any(o[0] == 'close' for o in outs):
                    closing.add(ident)
                if op == 'rd':
                    closing.discard(ident)
                    rec['disc'] = True
                rec.update(classify_outs(rec['reqs'], outs))
            else:
                rig.fire(disconnect(sock), 'web')
                httputil.drain(rig)
                closing.discard(ident)
                rec['kind'] = 'gone'
            rec.update(inb=int(sock in http._buffers), inc=int(sock in http._clients),
                       nb=len(http._buffers), nc=len(http._clients), closing=int(ident in closing))
            recs.append(rec)
        if final['crash'] is None:
            try:
                rig.fire(Event.create('c14_probe'), 'web')
                httputil.drain(rig)
                final['alive'] = rig.probes == 1
            except BaseException as e:  # noqa: BLE001
                final['alive'] = False
                final['crash'] = f'{type(e).__name__}: {e}'
        final['tables'] = (len(rig.http._buffers), len(rig.http._clients))
    finally:
        rig.restore()
    return recs, final


STATUS_RE = re.compile(rb'^HTTP/(\d+)\.(\d+) (\d{3})(?: |\r)')


def classify_outs(reqs, outs):
    writes = [o[2] for o in outs if o[0] == 'write']
    closes = sum(1 for o in outs if o[0] == 'close')
    d = {'wrote': b''.join(writes), 'nclose': closes, 'status': None}
    if writes:
        m = STATUS_RE.match(writes[0])
        if m:
            d['status'] = int(m.group(3))
            d['version'] = (int(m.group(1)), int(m.group(2)))
    if reqs:
        d['kind'] = 'dispatch'
    elif writes:
        d['kind'] = 'reject'
    elif closes:
        d['kind'] = 'closeonly'
    else:
        d['kind'] = 'wait'
    return d


# ---------------------------------------------------------------------------------------
# C: the statement on the implementation's own behaviour
# ---------------------------------------------------------------------------------------

def python_parse(raw, is_head):
    """independent second parser: http.client"""
    class _F(io.BytesIO):
        def close(self):      # HTTPResponse closes its file when the body is complete; we still want the rest
            pass

    class _S:
        def __init__(self, b):
            self.f = _F(b)

        def makefile(self, *a, **k):
            return self.f
    s = _S(raw)
    r = http.client.HTTPResponse(s, method='HEAD' if is_head else 'GET')
    r.begin()
    wc = r.will_close
    body = r.read()
    rest = s.f.read()
    return r.status, body, rest, wc


def first_method(data):
    return data.split(b' ', 1)[0].upper() if b' ' in data[:24] else b''


def spec_ops(case, recs):
    """driver ops (`one`) for the reads that wrote something; parallel list of (index, is_head)"""
    ops, idx = [], []
    stream = {}
    for i, r in enumerate(recs):
        if r['op'] in ('r', 'rd') and 'data' in r:
            if r.get('reqs'):
                is_head = r['reqs'][0]['method'] == 'HEAD'
            else:
                # start of the message this read belongs to
                is_head = first_method(stream.get(r['sock'], b'') + r['data']) == b'HEAD'
            stream[r['sock']] = stream.get(r['sock'], b'') + r['data']
            if r['kind'] in ('dispatch', 'reject', 'closeonly'):
                stream[r['sock']] = b''
            r['is_head'] = is_head
            if r.get('wrote'):
                # bytes before the first close, whether closed, whether anything came after the first close
                outs = r['outs']
                before, after, closed = [], False, False
                for o in outs:
                    if o[0] == 'close':
                        if closed:
                            after = True
                        closed = True
                    elif closed:
                        after = True
                    else:
                        before.append(o[2])
                code = r['status'] if r['status'] is not None else 0
                # a rejected message whose first token is HEAD: the component may or may not have recognised the
                # method (a bad request line is answered as if it were a GET); either reading is accepted
                both = is_head and not r.get('reqs')
                ops.append(f"one {int(is_head)} {code} {int(closed)} {int(after)} {hx(b''.join(before))}")
                idx.append((i, False))
                if both:
                    ops.append(f"one 0 {code} {int(closed)} {int(after)} {hx(b''.join(before))}")
                    idx.append((i, True))
    return ops, idx


def last_exit(recs, ident):
    k = 'none'
    for r in recs:
        if r['sock'] == ident and r['op'] in ('r', 'rd') and r.get('kind') not in (None, 'late'):
            k = r['kind'] + (str(r['status']) if r.get('status') and r['kind'] != 'wait' else '')
    return k


# ---------------------------------------------------------------------------------------
# C (v): framing that RFC 7230 calls invalid, judged on the byte stream alone
# ---------------------------------------------------------------------------------------

TOKEN_RE = re.compile(rb"^[!#$%&'*+\-.^_`|~0-9A-Za-z]+$")
DEC_RE = re.compile(rb'^[0-9]+$')
PYINT_RE = re.compile(rb'^[+-]?[0-9]+(_[0-9]+)*$')      # what int() takes of printable ASCII (after stripping)


def strict_head(buf):
    """
    RFC 7230 reading of the start of a request stream.  Deliberately narrow: everything that is not a plain header
    block is `unknown` (= not judged).
    -> ('more',)                          no complete header block yet
       ('unknown', why)
       ('ok', head_len, body_len)         no Content-Length (0) or one decimal value
       ('chunked', head_len)              Transfer-Encoding: chunked (alone, no Content-Length) -> strict_chunks
       ('badcl', head_len, kind, values)  kind = non-decimal | conflicting
    """
    j = buf.find(CRLF2)
    if j < 0:
        return ('more',)
    head = buf[:j]
    lines = head.split(CRLF)
    if not lines[0]:
        return ('unknown', 'empty first line')
    for ln in lines:
        if any(c != 9 and not 0x20 <= c <= 0x7e for c in ln):
            return ('unknown', 'control or high byte')
        if b'\\' in ln:
            return ('unknown', 'backslash (the parser un-escapes)')
    clens, tes, coded = [], [], False
    for ln in lines[1:]:
        name, colon, value = ln.partition(b':')
        if not colon or not TOKEN_RE.match(name):
            return ('unknown', 'header line is not token ":" value')
        lname = name.lower()
        if lname == b'transfer-encoding':
            tes.append(value.strip(b' \t'))
        if lname == b'content-encoding':
            coded = True
        if lname == b'content-length':
            clens.append(value.strip(b' \t'))
    if tes:
        if clens:
            return ('unknown', 'Transfer-Encoding with Content-Length (3.3.3 (3) applies)')
        if len(tes) > 1 or tes[0].lower() != b'chunked' or coded:
            return ('unknown', 'Transfer-Encoding is not the single coding "chunked" / Content-Encoding present')
        return ('chunked', j + 4)
    if not clens:
        return ('ok', j + 4, 0)
    members = [m.strip(b' \t') for v in clens for m in v.split(b',')]
    if any(PYINT_RE.match(m) and not DEC_RE.match(m) for m in members):
        return ('unknown', 'signed / underscored value (int() takes it; documented leniency)')
    if all(DEC_RE.match(m) for m in members):
        if len({int(m) for m in members}) > 1:
            return ('badcl', j + 4, 'conflicting', clens)
        if len(members) > 1:
            return ('unknown', 'repeated identical values (a recipient may collapse them)')
        return ('ok', j + 4, int(members[0]))
    return ('badcl', j + 4, 'non-decimal', clens)


HEX_RE = re.compile(rb'^[0-9A-Fa-f]+$')
HEXBWS_RE = re.compile(rb'^[0-9A-Fa-f]+[ \t]*$')          # BWS before ";" (RFC 7230 erratum 4667 / RFC 9112 7.1.1)
PYWS = b' \t\n\r\x0b\x0c'
# the ASCII strings Python's int(x, 16) takes, written down from the language reference (2.4.5 + int()): optional
# whitespace, sign, 0x prefix, hex digits with single underscores between them (also directly after the prefix)
PYHEX_RE = re.compile(rb'^[ \t\n\r\x0b\x0c]*([+-]?)(0[xX]_?)?([0-9A-Fa-f]+(?:_[0-9A-Fa-f]+)*)[ \t\n\r\x0b\x0c]*$')


def pyhex_value(size):
    """the number Python's int(size, 16) returns for an ASCII byte string, None where it raises ValueError"""
    m = PYHEX_RE.match(size)
    if not m:
        return None
    v = int(m.group(3).replace(b'_', b''), 16)
    return -v if m.group(1) == b'-' else v


def classify_size(size):
    """
    a chunk-size field (the line up to the first ";") that is not 1*HEXDIG
    -> ('unparsable', '')      no reading as a number: RFC and int() both refuse it
       ('negative', '')        int() reads a number < 0
       ('lenient', how)        int() reads a number >= 0 (sign / whitespace / 0x / underscore): not judged
       ('unknown', why)
    """
    m = PYHEX_RE.match(size)
    if m:
        v = pyhex_value(size)
        if v < 0:
            return ('negative', '')
        how = []
        if m.group(1):
            how.append('sign' + m.group(1).decode())
        if size != size.strip(PYWS):
            how.append('whitespace')
        if m.group(2):
            how.append('0x')
        if b'_' in size:
            how.append('underscore')
        return ('lenient', '+'.join(how) + ('=0' if v == 0 else '=n'))
    if any(c != 9 and not 0x20 <= c <= 0x7e for c in size):
        return ('unknown', 'control or high byte in the chunk-size line')
    return ('unparsable', '')


def strict_chunks(buf, pos):
    """
    RFC 7230 4.1 reading of a chunked body that starts at buf[pos:]; stops at the first chunk-size line that is not
    1*HEXDIG [BWS ";" ext].
    -> ('more',)                                    everything so far is strictly framed, the last-chunk / trailer end
                                                    has not arrived
       ('complete', end)                            last-chunk and trailer section end at `end`
       ('badsize', line_end, klass, how, line)      see classify_size; line_end = offset just after the line's CRLF
       ('unknown', why)
    """
    while True:
        e = buf.find(CRLF, pos)
        if e < 0:
            return ('more',)
        line = buf[pos:e]
        size, semi, ext = line.partition(b';')
        if HEX_RE.match(size) or (semi and HEXBWS_RE.match(size)):
            if any(c != 9 and not 0x20 <= c <= 0x7e for c in ext):
                return ('unknown', 'control or high byte in a chunk extension')
            n = int(size.strip(b' \t'), 16)
            if n == 0:
                q = e + 2
                while True:
                    e2 = buf.find(CRLF, q)
                    if e2 < 0:
                        return ('more',)
                    if e2 == q:
                        return ('complete', q + 2)
                    name, colon, _value = buf[q:e2].partition(b':')
                    if not colon or not TOKEN_RE.match(name) or any(c != 9 and not 0x20 <= c <= 0x7e for c in buf[q:e2]):
                        return ('unknown', 'trailer line is not token ":" value')
                    q = e2 + 2
            d = e + 2
            if len(buf) < d + n + 2:
                return ('more',)
            if buf[d + n:d + n + 2] != CRLF:
                return ('unknown', 'chunk data not followed by CRLF')
            pos = d + n + 2
            continue
        klass, how = classify_size(size)
        if klass == 'unknown':
            return ('unknown', how)
        return ('badsize', e + 2, klass, how, line)


def framing_verdicts(recs, notes=None):
    """clauses (v) and (vi) -> list of (signature, what); `notes` collects (kind, delivery) of every judged message"""
    v = []
    st = {}

    def dispatched(r):
        st2 = r.get('status')
        return bool(r['reqs']) or (st2 is not None and 200 <= st2 < 300)

    def how_answered(r):
        st2 = r.get('status')
        return (('dispatched as a request event' if r['reqs'] else 'not rejected')
                + (f' and answered {st2}' if st2 is not None else ''))

    for i, r in enumerate(recs):
        s = st.setdefault(r['sock'], {'mode': 'sync', 'buf': b''})
        if r['op'] == 'd':
            st[r['sock']] = {'mode': 'sync', 'buf': b''}
            continue
        if r.get('kind') in ('late', 'crash', None) or 'data' not in r:
            if r.get('disc'):
                st[r['sock']] = {'mode': 'sync', 'buf': b''}
            continue
        active = bool(r['reqs'] or r.get('wrote'))
        if s['mode'] == 'poisoned':
            if active and s.get('pending') and dispatched(r):
                # the message with the invalid chunk-size line itself, completed by a later read
                v.append(('malformed-dispatched(chunk-size)',
                          f"read #{i} {r['data'][:60]!r}: request with invalid chunked framing ({s['desc']}, that line completed "
                          f"in read #{s['at']}) was {how_answered(r)}"))
                s['pending'] = False
            elif active:
                what = ('a request event' if r['reqs'] else 'a response') + (f" ({r['status']})" if r.get('status') else '')
                v.append(('body-parsed-as-request',
                          f"read #{i} {r['data'][:60]!r}: bytes that follow a message with invalid framing "
                          f"({s['desc']}, {s['done']} in read #{s['at']}) "
                          f"produced {what} of their own"))
                s['mode'] = 'lost'
            elif notes is not None:
                notes.append(('later-read', r['kind']))
        elif s['mode'] == 'sync':
            s['buf'] += r['data']
            f = strict_head(s['buf'])
            if f[0] == 'chunked':
                g = strict_chunks(s['buf'], f[1])
                if g[0] == 'complete':
                    f = ('ok', g[1], 0)
                elif g[0] in ('more', 'unknown'):
                    f = g
            if f[0] == 'more':
                if r['kind'] != 'wait':
                    s['mode'] = 'lost'
            elif f[0] == 'unknown':
                s['mode'] = 'lost'
            elif f[0] == 'ok':
                total = f[1] + f[2]
                if len(s['buf']) == total and r['kind'] != 'wait':
                    s['buf'] = b''
                elif len(s['buf']) < total and r['kind'] == 'wait':
                    pass
                else:
                    s['mode'] = 'lost'
            elif f[0] == 'chunked':
                _tag, line_end, klass, how, line = g
                post = s['buf'][line_end:]
                where = ('first chunk' if line_end - len(line) - 2 == f[1] else 'after strictly framed chunks') + ', ' + (
                    'line ends the read' if not post else 'more bytes in the same read')
                if klass == 'lenient':
                    # int() reads a number >= 0 and the unchanged code carries on with it: documented leniency, not judged
                    if notes is not None:
                        notes.append((f'chunk-size lenient({how}) not judged', f"impl {r['kind']}"))
                    s['mode'] = 'lost'
                else:
                    if notes is not None:
                        notes.append((f'chunk-size {klass}', where))
                    desc = f"chunk-size line {line[:40]!r}: {'a negative number' if klass == 'negative' else 'not a number'}; RFC 7230 4.1 chunk-size = 1*HEXDIG"
                    s.update(mode='poisoned', desc=desc, done='that line completed', at=i, pending=True)
                    if dispatched(r):
                        v.append(('malformed-dispatched(chunk-size)',
                                  f"read #{i} {r['data'][:60]!r}: request with invalid chunked framing ({desc}) was {how_answered(r)}"))
                        s['pending'] = False
                    elif active:
                        s['pending'] = False      # answered by a rejection: nothing further may come of it
            else:
                _tag, hl, kind, values = f
                values = [x.decode('latin1') for x in values]
                if notes is not None:
                    notes.append((kind, 'header block ends the read' if len(s['buf']) == hl else 'body bytes in the same read'))
                if dispatched(r):
                    v.append(('malformed-dispatched(content-length)',
                              f"read #{i} {r['data'][:60]!r}: request with invalid framing (Content-Length {values}: {kind}; "
                              f"RFC 7230 3.3.2 / 3.3.3 (4)) was {how_answered(r)}"))
                s.update(mode='poisoned', desc=f'Content-Length {values}, {kind}', done='header block completed', at=i)
        if r.get('disc'):
            st[r['sock']] = {'mode': 'sync', 'buf': b''}
    return v


def judge(case, recs, final, one_answers, idx, notes=None):
    """-> list of (signature, what)"""
    v = []
    beh = case['beh']
    ans = {}
    for (i, alt), a in zip(idx, one_answers):
        if not alt:
            ans[i] = a
        elif a == 'ok' and ans.get(i) != 'ok':
            ans[i] = 'ok'
            recs[i]['is_head'] = False
    if final['crash']:
        v.append((f"loop-dead({final['crash'].split(':')[0]})", f"an exception left the event loop: {final['crash']}"))
        return v
    for i, r in enumerate(recs):
        if r['op'] not in ('r', 'rd') or r.get('kind') in ('late', None):
            continue
        tag = f"read #{i} {r['data'][:60]!r}"
        if r.get('wrote'):
            a = ans.get(i, 'ok')
            if r['status'] is None:
                v.append(('invalid-response(status-line)', f'{tag}: written bytes do not start with a status line: {r["wrote"][:60]!r}'))
            elif a != 'ok':
                clause = a.split(None, 1)[1] if ' ' in a else a
                if clause == 'two-responses' or (clause == 'activity-after-close' and r['nclose'] > 1):
                    v.append((f'two-responses({beh if r["reqs"] else r["kind"]})',
                              f'{tag}: {r["wrote"].count(b"HTTP/")} status lines, {r["nclose"]} close events in one read'))
                else:
                    v.append((f'invalid-response({clause})', f'{tag}: RFC reader: {a}; bytes start {r["wrote"][:70]!r}'))
            else:
                try:
                    st, _body, rest, _wc = python_parse(r['wrote'], r['is_head'])
                    if st != r['status'] or rest:
                        v.append(('invalid-response(http.client-disagrees)', f'{tag}: http.client status {st}, {len(rest)} bytes left'))
                except Exception as e:  # noqa: BLE001
                    v.append((f'invalid-response(http.client:{type(e).__name__})',
                              f'{tag}: http.client cannot read the response: {e!r}; bytes start {r["wrote"][:40]!r}'))
            if r['kind'] == 'reject' and r['status'] is not None and r['status'] < 300:
                v.append(('invalid-response(status-class)', f'{tag}: the component answered {r["status"]} without dispatching a request'))
        elif r['nclose'] > 1:
            v.append(('two-responses(close)', f'{tag}: {r["nclose"]} close events'))
        if len(r['reqs']) > 1:
            v.append(('request-twice', f'{tag}: {len(r["reqs"])} request events in one read'))
        if r['reqs'] and beh == 'ok' and r.get('status') not in (200, None):
            v.append(('request-after-reject', f'{tag}: request dispatched and the component answered {r["status"]}'))
        if r['errors'] and not r.get('wrote') and not r['nclose']:
            v.append((f"unhandled({r['errors'][0][0]})", f'{tag}: exception event {r["errors"][0]} without response or close'))
    v.extend(framing_verdicts(recs, notes))
    if not final['alive']:
        v.append(('loop-dead', 'the probe event fired after the script was not dispatched'))
    for i, r in enumerate(recs):
        if r.get('kind') == 'gone' or r.get('disc'):
            if r['inb']:
                v.append((f"leak(_buffers,{last_exit(recs[:i + 1], r['sock'])})",
                          f"after disconnect of socket {r['sock']} its parser is still in _buffers"))
            if r['inc']:
                v.append((f"leak(_clients,{last_exit(recs[:i + 1], r['sock'])})",
                          f"after disconnect of socket {r['sock']} its request/response pair is still in _clients"))
    if not v and final.get('tables') != (0, 0):
        v.append(('leak(tables-not-empty)', f"all sockets disconnected, table sizes {final.get('tables')}"))
    return v


# ---------------------------------------------------------------------------------------
# B: lexer tables incl. exceptions, model ops
# ---------------------------------------------------------------------------------------

class Tables14(c13.LexTables):
    def __init__(self):
        super().__init__()
        self.exn1 = set()
        self.exnh = set()
        self.exn4 = set()
        self.exnr = set()
        self.head = set()
        self.lexc_bad = []

    def add_stream(self, msg):
        import httputil
        from circuits.web import wrappers
        from circuits.web.parsers.http import HttpParser, InvalidHeader
        fl, hb, lines = c13.candidates(msg)
        if fl is None:
            return
        self._add(fl, hb, lines)
        if hb is not None and msg[len(fl) + 2:len(fl) + 4] == CRLF:
            # the read that completes the first line may end right after an empty header block
            self._add(fl, None, [])

    def _add(self, fl, hb, lines):
        import httputil
        from circuits.web import wrappers
        from circuits.web.parsers.http import HttpParser, InvalidHeader
        if (0, fl) not in self.first and fl not in self.exn1:
            p = HttpParser(0)
            try:
                ok = p._parse_firstline(str(fl, 'unicode_escape'))
            except Exception:  # noqa: BLE001 - (E1)
                self.exn1.add(fl)
                ok = None
            if ok is not None:
                if not ok:
                    self.first[(0, fl)] = None
                else:
                    ver = p.get_version()
                    self.first[(0, fl)] = {'maj': ver[0], 'min': ver[1], 'status': None,
                                           'dec': [p.get_method(), p.get_path(), p.get_query_string(), list(ver), None]}
                    if p.get_method() == 'HEAD':
                        self.head.add(fl)
                    try:
                        wrappers.Request(httputil.SockToken(0), p.get_method(), p.get_scheme() or 'http', p.get_path(),
                                         ver, p.get_query_string(), server=c13._FakeServer())
                    except Exception:  # noqa: BLE001 - (E2)
                        self.exn4.add(fl)
        if fl in self.exn1 or self.first.get((0, fl)) is None:
            return
        if hb is not None and hb not in self.hdrs and hb not in self.exnh:
            p = HttpParser(0)
            try:
                p._parse_headers(hb + CRLF2)
                bad = False
            except InvalidHeader:
                bad = True
            except Exception:  # noqa: BLE001 - (E1)
                self.exnh.add(hb)
                bad = None
            if bad is True:
                self.hdrs[hb] = None
            elif bad is False:
                self.hdrs[hb] = c13.lex_hdrs(hb)     # may raise Unsupported (Content-Encoding)
        if hb is not None and (hb in self.exnh or self.hdrs.get(hb) is None):
            return
        h = self.hdrs.get(hb) if hb is not None else None
        if h and h['te'] and h['clen'] == 'absent':
            for ln in lines:
                if ln not in self.chunk:
                    got = c13.chunk_raw(ln)     # the tree's own _parse_chunk_size: number | None = InvalidChunkSize
                    self.chunk[ln] = got if got is None or got >= 0 else None
                    # the lexer is a parameter of the model (Bytes -> Option Nat, none = InvalidChunkSize); what it is
                    # instantiated with must be the number written on the line (pyhex_value: Python's int(x, 16) written
                    # down independently of the code) and InvalidChunkSize for a negative one.  A tree whose lexer
                    # returns a negative number, or another number than the one on the line, is a disagreement - the
                    # case is not skipped: the model runs with `none` for a negative size
                    want = pyhex_value(ln.split(b';', 1)[0])
                    if want is not None and want < 0:
                        want = None
                    if got != want:
                        self.lexc_bad.append((ln, got, want))
        if (fl, hb) not in self.path and (fl, hb) not in self.exnr:
            p = HttpParser(0)
            data = fl + CRLF + ((hb + CRLF2) if hb is not None else CRLF)
            p.execute(data, len(data))
            try:
                wrappers.Request(httputil.SockToken(0), p.get_method(), p.get_scheme() or 'http', p.get_path(),
                                 p.get_version(), p.get_query_string(), headers=p.get_headers(), server=c13._FakeServer())
            except Exception:  # noqa: BLE001 - (E3)
                self.exnr.add((fl, hb))
                return
            self.path[(fl, hb)] = c13.path_ok(fl, hb)   # may raise Unsupported

    def lines14(self):
        out = self.lines()
        out += [f'exn1 {hx(x)}' for x in sorted(self.exn1)]
        out += [f'exnh {hx(x)}' for x in sorted(self.exnh)]
        out += [f'exn4 {hx(x)}' for x in sorted(self.exn4)]
        out += [f"exnr {hx(a)} {'~' if b is None else hx(b)}" for a, b in sorted(self.exnr, key=repr)]
        out += [f'head {hx(x)}' for x in sorted(self.head)]
        return out


def tables_for(case):
    """candidates: for every socket, every suffix of its read stream that starts at a read boundary"""
    t = Tables14()
    per = {}
    for st in case['steps']:
        if st[0] in ('r', 'rd'):
            per.setdefault(st[1], []).append(unhx(st[2]))
    for segs in per.values():
        for i in range(len(segs)):
            t.add_stream(b''.join(segs[i:]))
    return t


def parse_head(raw):
    """-> (status line, [(name, value)], rest) of written bytes"""
    i = raw.find(CRLF2)
    head, rest = raw[:i], raw[i + 4:]
    lines = head.split(CRLF)
    hs = []
    for ln in lines[1:]:
        k, _, val = ln.partition(b': ')
        hs.append((k, val))
    return lines[0], hs, rest


def wire_op(rec, is_head, v11, code):
    """the `wire` op for an error response: texts from the implementation, shape from the model"""
    from circuits.web.constants import HTTP_STATUS_CODES
    _sl, hs, _rest = parse_head(rec['wrote'])
    if any(k == b'Set-Cookie' for k, _ in hs):
        return None       # request cookies echoed by prepare(): outside the response model (as in C15)
    app = []
    names = [k for k, _ in hs]
    for k, val in hs:
        if k in (b'Content-Length', b'Transfer-Encoding', b'Connection'):
            continue
        app.append((k, val))
    # the default Content-Type is added by prepare() unless the error set one (redirects do)
    if app and app[-1] == (b'Content-Type', DEFAULT_CT) and names.count(b'Content-Type') == 1:
        app.pop()
    writes = [o[2] for o in rec['outs'] if o[0] == 'write']
    page = b''.join(writes[1:]) if not is_head else None
    if page is None:
        # HEAD: the page is not on the wire; its length is (Content-Length); any page of that length will do
        n = int(dict(hs).get(b'Content-Length', b'0'))
        page = b'x' * n
    reason = HTTP_STATUS_CODES.get(code, '').encode()
    return (f"wire {int(is_head)} {int(v11)} {code} {hx(reason)} {hx(page)} "
            + ' '.join(f'{hx(k)}={hx(val)}' for k, val in app)).strip()


def show_acts(outs):
    return ' '.join('c' if o[0] == 'close' else 'w:' + hx(o[2]) for o in outs)


def model_ops(case, recs, t):
    ops = list(t.lines14())
    skip = len(ops)
    sec = int(case.get('secure', 0))
    plan = []
    for r in recs:
        if r['op'] in ('r', 'rd'):
            beh = BEH_MODEL.get(case['beh'])
            if beh is None:
                beh = 'ok1' if r.get('nclose') else 'ok0'
            plan.append(('read', r))
            ops.append(f"sread {sec} {r['sock']} {r['hexdata']} {beh}")
            if r['op'] == 'rd':
                plan.append(('disc', r))
                ops.append(f"disc {r['sock']}")
        else:
            plan.append(('disc', r))
            ops.append(f"disc {r['sock']}")
    return ops, skip, plan


def compare(ctx, case, recs, t, ans, skip, plan):
    """B: model answers vs implementation records; returns (ok, wire ops to ask, their expectations)"""
    ok = True
    wires = []
    body = ans[skip:]
    for k, ((what, r), a) in enumerate(zip(plan, body)):
        left, tab = a.rsplit('|', 1)
        f = left.split()
        nb, nc, inb, inc, closing = tab.split()
        if what == 'read':
            if f[0] != r['kind']:
                ctx.disagree(case, {'where': 'out.kind', 'step': k, 'impl': (r['kind'], r.get('status')), 'model': left.strip()})
                return False, wires
            if f[0] == 'reject':
                if int(f[2]) != r['status']:
                    ctx.disagree(case, {'where': 'reject.status', 'step': k, 'impl': r['status'], 'model': left.strip()})
                    return False, wires
                wires.append((k, r, wire_op(r, f[3] == '1', f[4] == '1', int(f[2]))))
                ctx.count('model_exit', f[1])
            elif f[0] == 'dispatch':
                exp = c13.expected_request(t, ['request', f[1], f[2], f[3]])
                if exp is None or [exp] != r['reqs']:
                    ctx.disagree(case, {'where': 'dispatch.request', 'step': k, 'impl': r['reqs'], 'model': exp})
                    return False, wires
                if f[6].startswith('err:'):
                    code = int(f[6][4:])
                    if r['status'] != code:
                        ctx.disagree(case, {'where': 'handler-error.status', 'step': k, 'impl': r['status'], 'model': code})
                        return False, wires
                    wires.append((k, r, wire_op(r, f[4] == '1', f[5] == '1', code)))
                ctx.count('model_exit', 'dispatch:' + f[6].split(':')[0])
            else:
                ctx.count('model_exit', f[0])
            if r['op'] == 'rd':
                continue      # tables are compared after the queued disconnect
        impl_tab = f"{r['nb']} {r['nc']} {r['inb']} {r['inc']} {r['closing']}"
        if tab.split() != impl_tab.split():
            ctx.disagree(case, {'where': 'tables', 'step': k, 'impl(nb nc inb inc closing)': impl_tab, 'model': tab.strip(),
                                'after': what})
            return False, wires
    return ok, wires


# ---------------------------------------------------------------------------------------
# evaluation of a batch of cases
# ---------------------------------------------------------------------------------------

def classify_case(case, sig):
    return sig


def evaluate(ctx, cases, shrink=True):
    runs = []
    for case in cases:
        with ctx.guard(case, what='HTTP component (read events of this case)'):
            recs, final = run_impl(case)
        k = 0
        for st, r in zip(case['steps'], recs):
            if st[0] in ('r', 'rd'):
                r['hexdata'] = st[2]
        runs.append((case, recs, final))
    # C
    spec_batches = []
    for case, recs, final in runs:
        ops, idx = spec_ops(case, recs)
        spec_batches.append((ops, idx))
    answers = ctx.driver.batch('http14', [ops for ops, _ in spec_batches])
    viol_cases = []
    for (case, recs, final), (ops, idx), ans in zip(runs, spec_batches, answers):
        notes = []
        vs = judge(case, recs, final, ans, idx, notes)
        for kind, how in notes:
            ctx.count('framing_oracle', f'{kind}: {how}')
        if vs:
            viol_cases.append((case, vs))
    for case, vs in viol_cases:
        seen = set()
        for sig, what in vs:
            if sig in seen:
                continue
            seen.add(sig)
            done = ctx.__dict__.setdefault('_minimised', [])
            if shrink and sig not in done:
                done.append(sig)
                c2 = minimise(ctx, case, sig)
            else:
                c2 = case
            ctx.violate(c2, sig, what)
    # B
    ops_all, keep = [], []
    for case, recs, final in runs:
        for r in recs:
            ctx.count('impl_out', r.get('kind', '?') + (str(r['status']) if r.get('status') else ''))
        ctx.count('beh', case['beh'])
        ctx.count('reads', min(sum(1 for s in case['steps'] if s[0] != 'd'), 9))
        for m in case.get('ops', []):
            ctx.count('mutation', m)
        if final['crash']:
            ctx.case(case, nontrivial=True, validated=False)
            continue
        try:
            t = tables_for(case)
        except c13.Unsupported as e:
            ctx.count('unmodelled', str(e))
            ctx.case(case, nontrivial=True, validated=False)
            continue
        c13.LEXTIE.add_tables(t)      # every string lexed for the tables also goes to the concrete Lean lexers
        ops, skip, plan = model_ops(case, recs, t)
        ops_all.append(ops)
        keep.append((case, recs, t, skip, plan))
    answers = ctx.driver.batch('http14', ops_all)
    c13.LEXTIE.flush(ctx)             # concrete-lexer correspondence (CV/Model/HttpLex.lean) on the mutation stream
    wire_all, wire_keep = [], []
    for (case, recs, t, skip, plan), ans in zip(keep, answers):
        bad = [a for a in ans[:skip] if a != 'ok']
        if bad or any(a == 'bad-op' for a in ans):
            ctx.disagree(case, {'where': 'driver', 'answers': [a for a in ans if a in ('bad-op',)][:3], 'tables': bad[:3]})
            ctx.case(case, nontrivial=True, validated=False)
            continue
        for x in t.inconsistent():
            ctx.disagree(case, {'where': 'lexh-consistency', 'model': x})
        for ln, got, want in t.lexc_bad:
            ctx.disagree(case, {'where': 'lexc-value', 'line': repr(ln), 'impl': got,
                                'model': 'none (InvalidChunkSize)' if want is None else want,
                                'what': "the code's chunk-size lexer does not return the number written on the line "
                                        '(InvalidChunkSize for a negative one)'})
        ok, wires = compare(ctx, case, recs, t, ans, skip, plan)
        ctx.count('wire_checked', 'set-cookie-skipped', sum(1 for x in wires if x[2] is None))
        ctx.count('wire_checked', 'compared', sum(1 for x in wires if x[2] is not None))
        wire_all.append([w for _k, _r, w in wires if w is not None])
        wire_keep.append((case, ok, wires))
    answers = ctx.driver.batch('http14', wire_all)
    for (case, ok, wires), ans in zip(wire_keep, answers):
        wires = [x for x in wires if x[2] is not None]
        for (k, r, w), a in zip(wires, ans):
            if a != show_acts(r['outs']):
                ok = False
                ctx.disagree(case, {'where': 'wire', 'step': k, 'impl': show_acts(r['outs'])[:400], 'model': a[:400]})
                break
        ctx.case(case, nontrivial=True, validated=ok)


def minimise(ctx, case, sig):
    """shrink the script while the same signature is reported"""
    def fails(steps):
        c = dict(case, steps=close_script(steps))
        try:
            recs, final = run_impl(c)
            ops, idx = spec_ops(c, recs)
            ans = ctx.driver.run('http14', ops) if ops else []
            return any(s == sig for s, _ in judge(c, recs, final, ans, idx))
        except Exception:  # noqa: BLE001
            return False
    try:
        steps = ddmin(case['steps'], fails)
        c = dict(case, steps=close_script(steps))
        return c if fails(c['steps']) else case
    except Exception:  # noqa: BLE001
        return case


def close_script(steps):
    """every socket that was read from is disconnected at the end"""
    steps = [list(s) for s in steps]
    open_ = []
    for s in steps:
        if s[0] == 'r' and s[1] not in open_:
            open_.append(s[1])
        elif s[0] in ('d', 'rd') and s[1] in open_:
            open_.remove(s[1])
    return steps + [['d', s] for s in open_]


# ---------------------------------------------------------------------------------------
# generation: mutation operators over the C13 grammar
# ---------------------------------------------------------------------------------------

BAD_VERSIONS = [b'HTTP/2.0', b'HTTP/0.9', b'HTTP/1.9', b'HTTP/12.34', b'HTTP/1x1', b'HTTP/1', b'http/1.1', b'HTTP/3.7',
                b'HTTP/\\u0661.\\u0661', b'HTTP/1.', b'HTTP/.1', b'HTTP/1.1 ', b'HTTP/9.9']
BAD_CLEN = [b'abc', b'-5', b'99999999999999999999999', b'+5', b' 5 ', b'0x10', b'5, 5', b'', b'5.0', b'1e3', b'\\x35', b'-0', b'\xd9\xa5',
            b'1x', b'5, 6', b'5;q', b'3 3']
BAD_CHUNK = [b'zz', b'-5', b'', b'1g', b'ffffffffffffffffffffff', b' 5', b'5 ;x', b'0x5', b';', b'+3',
             # everything int(x, 16) takes although chunk-size = 1*HEXDIG does not: sign, whitespace, 0x, underscores
             b'-1', b'-0', b'+0', b'-a;x', b' -2', b'-1 ', b'\t3', b'3 ', b'0X3', b'0x0', b'-0x1', b'1_0', b'0_0', b'-1_0', b'3_',
             b'_3', b'-', b'+', b'0x', b'- 1', b'\x0b0', b'\x0c3', b'-ff']
ESCAPES = [b'\\x', b'\\N{bad}', b'\\u12', b'\\U99999999', b'\\', b'\\xZZ', b'\\N{', b'\\777', b'\\x41', b'\\r\\n', b'\\u000d\\u000a']
BAD_HOSTS = [b'h:abc', b'h:', b':80', b'[::1]:x', b'h:99999999999', b'h:-1', b'h:8000:9', b'', b' ', b'h:\\x']
BAD_PATHS = [b'//a', b'/a/../b', b'/%2e%2e/x', b'http://other/x', b'*', b'/a#frag', b'/a b', b'', b'/\\', b'/%zz', b'/a?x=%',
             b'//', b'/./a', b'/a//b', b'/\xc3\xa9', b'/%c3%a9', b'http://[::1/x', b'/;p=1', b'/a\tb']
TLS = [bytes.fromhex('16030100a5010000a10303'), bytes.fromhex('160301'), bytes.fromhex('802e0103010015'),
       bytes.fromhex('8080'), bytes.fromhex('800a'), bytes.fromhex('8009'), bytes.fromhex('ffff01'), bytes.fromhex('16030300')]


def split_msg(msg):
    i = msg.find(CRLF)
    j = msg.find(CRLF2)
    if i < 0 or j < 0:
        return None
    fl = msg[:i]
    hdrs = msg[i + 2:j].split(CRLF) if j > i else []
    return fl, [h for h in hdrs if h], msg[j + 4:]


def join_msg(fl, hdrs, body):
    return fl + CRLF + b''.join(h + CRLF for h in hdrs) + CRLF + body


def m_request_line(rng, msg):
    p = split_msg(msg)
    if not p:
        return msg
    fl, hs, body = p
    parts = fl.split(b' ')
    k = rng.randrange(7)
    if k == 0 and len(parts) == 3:
        fl = b' '.join(parts[:2])
    elif k == 1:
        fl = fl + b' extra'
    elif k == 2:
        fl = fl.lower()
    elif k == 3:
        fl = rng.choice([b'GARBAGE', b'', b' ', b'GET', b'\x00\x01\x02', b'GET  /  HTTP/1.1', b'G' * 30 + b' / HTTP/1.1', b'G(T / HTTP/1.1'])
    elif k == 4 and len(parts) == 3:
        fl = parts[0] + b' ' + rng.choice(BAD_PATHS) + b' ' + parts[2]
    elif k == 5 and len(parts) == 3:
        fl = rng.choice([b'HEAD', b'head', b'TRACE', b'M-SEARCH', b'$$$']) + b' ' + parts[1] + b' ' + parts[2]
    else:
        fl = fl.replace(b' ', b'\t', 1)
    return join_msg(fl, hs, body)


def m_version(rng, msg):
    p = split_msg(msg)
    if not p:
        return msg
    fl, hs, body = p
    parts = fl.rsplit(b' ', 1)
    if len(parts) == 2:
        fl = parts[0] + b' ' + rng.choice(BAD_VERSIONS)
    return join_msg(fl, hs, body)


# header-block lines of odd shapes (also: lines made of white space only - a continuation line with nothing on it)
ODD_LINES = [b'NoColonHere', b'Bad Name: v', b'X\x01Y: v', b': empty-name', b'X-Ok : v', b'(paren): v', b' leading: v',
             b'\tcont-first', b'X:', b'X: ' + b'v' * 5, b'X@Y: v', b'"q": v', b' ', b'\t', b' \t ', b'  \t\t  ', b' :', b'\t:v',
             b'X: a\r\n ', b'X: a\r\n \t\r\n b']


def directed_odd_lines(rng):
    """every odd line shape at every position of a small header block, for a request that would otherwise be answered and
    for one that would otherwise be rejected"""
    cases = []
    blocks = [[b'Host: h', b'X-Note: a', b'Accept: */*'], [b'X-Note: a', b'Accept: */*']]
    for hs0 in blocks:
        for odd in ODD_LINES:
            for pos in range(len(hs0) + 1):
                hs = list(hs0)
                hs.insert(pos, odd)
                msg = join_msg(b'GET / HTTP/1.1', hs, b'')
                segs = cut(rng, msg, rng.choice([0, 0, 1]))
                cases.append({'kind': 'conn', 'beh': 'ok', 'secure': 0, 'steps': close_script(script(rng, segs)),
                              'ops': ['header', 'odd-line-at-%d' % pos]})
    return cases


def m_header(rng, msg):
    p = split_msg(msg)
    if not p:
        return msg
    fl, hs, body = p
    bad = rng.choice(ODD_LINES)
    hs.insert(rng.randint(0, len(hs)), bad)
    return join_msg(fl, hs, body)


def m_oversized(rng, msg):
    p = split_msg(msg)
    if not p:
        return msg
    fl, hs, body = p
    n = rng.choice([1000, 9000, 70000])
    hs.insert(rng.randint(0, len(hs)), rng.choice([b'X-Big: ' + b'a' * n, b'X' * n + b': v', b'Cookie: ' + b'a=b; ' * (n // 5)]))
    return join_msg(fl, hs, body)


def m_clen(rng, msg):
    p = split_msg(msg)
    if not p:
        return msg
    fl, hs, body = p
    hs = [h for h in hs if not h.lower().startswith(b'content-length')]
    val = rng.choice(BAD_CLEN)
    hs.append(b'Content-Length: ' + val)
    if rng.random() < 0.3:
        hs.append(b'Content-Length: ' + rng.choice([b'3', b'0', val]))
    if not body and rng.random() < 0.5:
        body = b'abc'
    return join_msg(fl, hs, body)


def m_clen_te(rng, msg):
    p = split_msg(msg)
    if not p:
        return msg
    fl, hs, body = p
    if not any(h.lower().startswith(b'transfer-encoding') for h in hs):
        hs.append(b'Transfer-Encoding: ' + rng.choice([b'chunked', b'gzip, chunked', b'identity', b'chunked, chunked', b'']))
    if not any(h.lower().startswith(b'content-length') for h in hs):
        hs.append(b'Content-Length: ' + rng.choice([b'3', b'0', b'7']))
    return join_msg(fl, hs, body or rng.choice([b'3\r\nabc\r\n0\r\n\r\n', b'abc']))


def m_chunk(rng, msg):
    p = split_msg(msg)
    if not p:
        return msg
    fl, hs, body = p
    hs = [h for h in hs if not h.lower().startswith((b'content-length', b'transfer-encoding'))]
    hs.append(b'Transfer-Encoding: chunked')
    bad = rng.choice(BAD_CHUNK)
    body = rng.choice([bad + b'\r\nabc\r\n0\r\n\r\n', b'3\r\nabc\r\n' + bad + b'\r\nxy\r\n0\r\n\r\n', b'3\r\nabcXX0\r\n\r\n',
                       b'3\r\nab\r\n0\r\n\r\n', b'0\r\nX-T v\r\n\r\n', bad + b'\r\n',
                       # the bad size where a last-chunk would stand: followed by an empty line / a trailer section
                       b'3\r\nabc\r\n' + bad + b'\r\n\r\n', bad + b'\r\n\r\n', b'3;x\r\nabc\r\n' + bad + b'\r\nX-T: v\r\n\r\n',
                       b'3\r\nabc\r\n' + bad + b'\r\n'])
    return join_msg(fl, hs, body)


def m_escape(rng, msg):
    esc = rng.choice(ESCAPES)
    j = msg.find(CRLF2)
    lim = j if j > 0 else len(msg)
    k = rng.randint(0, max(0, lim))
    return msg[:k] + esc + msg[k:]


def m_bytes(rng, msg):
    out = bytearray(msg)
    for _ in range(rng.randint(1, 3)):
        k = rng.randint(0, len(out))
        out[k:k] = rng.choice([b'\x00', b'\xff', b'\x80', b'\r', b'\n', b'\x0b', b'\x7f', b'\xc3', b'\x00\x00'])
    return bytes(out)


def m_tls(rng, msg):
    return rng.choice(TLS) + (msg if rng.random() < 0.5 else b'')


def m_host(rng, msg):
    p = split_msg(msg)
    if not p:
        return msg
    fl, hs, body = p
    hs = [h for h in hs if not h.lower().startswith(b'host')]
    k = rng.random()
    if k < 0.6:
        hs.insert(rng.randint(0, len(hs)), b'Host: ' + rng.choice(BAD_HOSTS))
    if rng.random() < 0.3:
        hs.append(b'Cookie: ' + rng.choice([b'a b c=;;=', b'=', b'a="', b'\\x', b'k=v; \x00', b'a=b; a=c']))
    return join_msg(fl, hs, body)


def m_lineend(rng, msg):
    k = rng.randrange(4)
    if k == 0:
        return msg.replace(CRLF, b'\n')
    if k == 1:
        return CRLF * rng.randint(1, 2) + msg
    if k == 2:
        return msg.replace(CRLF, b'\r', 1)
    return msg.replace(CRLF2, b'\r\n\n', 1)


# Request headers that the server itself interprets somewhere on the way to a response or an error page (content negotiation,
# connection handling, conditional and range logic, authentication, forwarding), each with well-formed and malformed values: a
# rejected or failing request still has to be answered whatever these say.
INTERPRETED_HEADERS = {
    b'Accept': [b'text/html', b'application/json', b'*/*;q=0.8', b'text/html;q=0.9, */*;q=0.8', b'text/html;q=0.9, */*;q=O.8',
                b'a/b;q=, c/d;q=1', b'text/html;q=1.5.2, x/y', b';;;, ,', b'application/json;q=abc, text/plain;q=0.1', b'*'],
    b'Accept-Language': [b'en', b'en;q=0.5, de;q=x', b','],
    b'Accept-Encoding': [b'gzip', b'gzip;q=zero, deflate', b'*;q=0'],
    b'Accept-Charset': [b'utf-8', b'utf-8;q=?, latin-1'],
    b'Connection': [b'close', b'keep-alive', b'Keep-Alive, Upgrade', b'upgrade', b',', b'\x00'],
    b'Upgrade': [b'websocket', b'h2c', b''],
    b'Expect': [b'100-continue', b'200-ok', b''],
    b'Range': [b'bytes=0-1', b'bytes=a-b', b'lines=1-2', b'bytes=-'],
    b'If-Modified-Since': [b'Thu, 01 Jan 1970 00:00:00 GMT', b'yesterday', b'-1'],
    b'If-None-Match': [b'"x"', b'*', b'W/'],
    b'Authorization': [b'Basic Zm9vOmJhcg==', b'Basic !!!', b'Digest username=', b'Bearer', b'Basic'],
    b'Content-Type': [b'text/plain', b'application/x-www-form-urlencoded', b'multipart/form-data', b'multipart/form-data; boundary=',
                      b'text/plain; charset=nope', b';', b'a/b/c; q=;'],
    b'X-Forwarded-For': [b'1.2.3.4', b'::1, x', b','],
    b'X-Forwarded-Host': [b'h', b'a b', b''],
    b'Referer': [b'http://h/', b'\\'],
    b'User-Agent': [b'ua', b'(', b'a' * 300],
}


def m_interpreted(rng, msg):
    p = split_msg(msg)
    if not p:
        return msg
    fl, hs, body = p
    for _ in range(rng.choice([1, 1, 2, 3])):
        name = rng.choice(sorted(INTERPRETED_HEADERS))
        val = rng.choice(INTERPRETED_HEADERS[name])
        if rng.random() < 0.2:
            name = rng.choice([name.lower(), name.upper()])
        hs.insert(rng.randint(0, len(hs)), name + b': ' + val)
    return join_msg(fl, hs, body)


MUTATORS = [('interpreted-header', m_interpreted), ('interpreted-header', m_interpreted), ('request-line', m_request_line), ('version', m_version), ('header', m_header), ('oversized', m_oversized),
            ('content-length', m_clen), ('clen+te', m_clen_te), ('chunk-size', m_chunk), ('escape', m_escape),
            ('nul/high-bytes', m_bytes), ('tls-hello', m_tls), ('host/cookie', m_host), ('line-ends', m_lineend)]

FIXED = [
    (b'GET / HTTP/1.1\r\nHost: h\r\n\r\n', 'ok'),
    (b'GARBAGE\r\n\r\n', 'ok'),
    (b'GET / HTTP/1.1\r\nNoColon\r\n\r\n', 'ok'),
    (b'GET / HTTP/1.0\r\nNoColon\r\n\r\n', 'ok'),
    (b'GET / HTTP/3.7\r\nNoColon\r\n\r\n', 'ok'),
    (b'GET / HTTP/2.0\r\nHost: h\r\n\r\n', 'ok'),
    (b'GET / HTTP/0.9\r\nHost: h\r\n\r\n', 'ok'),
    (b'GET / HTTP/12.34\r\nHost: h\r\n\r\n', 'ok'),
    (b'GET / HTTP/1.7\r\nHost: h\r\n\r\n', 'badbody'),
    (b'GET / HTTP/1.1\r\n\r\n', 'ok'),
    (b'HEAD / HTTP/1.1\r\n\r\n', 'ok'),
    (b'HEAD /x HTTP/2.0\r\nHost: h\r\n\r\n', 'ok'),
    (b'GET / HTTP/1.1\r\nHost: h\r\nContent-Length: abc\r\n\r\n', 'ok'),
    (b'POST / HTTP/1.1\r\nHost: h\r\nContent-Length: 2\r\nContent-Length: 3\r\n\r\nabc', 'ok'),
    (b'POST / HTTP/1.1\r\nHost: h\r\nContent-Length: -5\r\n\r\nabc', 'ok'),
    (b'GET /\\x HTTP/1.1\r\nHost: h\r\n\r\n', 'ok'),
    (b'GET / HTTP/1.1\r\nHost: h\r\nX: \\N{bad}\r\n\r\n', 'ok'),
    (b'GET / HTTP/1.1\r\nHost: h:abc\r\n\r\n', 'ok'),
    (b'GET / HTTP/1.1\r\nBad\\x: 1\r\nNoColon\r\n\r\n', 'ok'),
    (b'GET //a/../b HTTP/1.1\r\nHost: h\r\n\r\n', 'ok'),
    (b'HEAD //a HTTP/1.0\r\nHost: h\r\n\r\n', 'ok'),
    (b'POST / HTTP/1.1\r\nHost: h\r\nTransfer-Encoding: chunked\r\n\r\nzz\r\nabc\r\n', 'ok'),
    (b'GET / HTTP/1.1\r\nHost: h\r\n\r\n', 'raise'),
    (b'GET / HTTP/1.0\r\n\r\n', 'http403'),
    (b'HEAD / HTTP/1.1\r\nHost: h\r\n\r\n', 'raise'),
    (b'GET / HTTP/1.1\r\nHost: h\r\n\r\n', 'badbody'),
    (b'\x80\x2e\x01\x03\x01', 'ok'),
    (b'\x16\x03\x01\x02\x00\x01', 'ok'),
    (b'\r\n', 'ok'),
    (b'\r\n\r\n', 'ok'),
    (b'GET /\r\n', 'ok'),
]


# directed: invalid Content-Length framing x where the body bytes arrive (clause (v)).  %N = length of the body that
# follows (5 if none), %M = %N + 1.  The second group is the leniency that is documented and NOT judged.
CLEN_JUDGED = [[b'abc'], [b'1x'], [b'%N', b'%M'], [b'%M', b'%N'], [b'%N, %M'], [b''], [b'0x10'], [b'5.0'], [b'1e3'], [b'%N %N'],
               [b'abc', b'%N'], [b'%N', b'abc'], [b'%N;q=1'], [b'%N,']]
CLEN_UNJUDGED = [[b'-5'], [b'-0'], [b'-%N'], [b'+%N'], [b'%N', b'%N'], [b'%N, %N'], [b'%N']]
CLEN_HEADS = [b'POST / HTTP/1.1\r\nHost: h\r\n', b'POST /a HTTP/1.0\r\nConnection: keep-alive\r\n', b'GET /x?y=1 HTTP/1.1\r\nHost: h\r\nAccept: */*\r\n']
CLEN_BODIES = [b'', b'hello', b'hello\r\n\r\n', b'GET /evil HTTP/1.1\r\nHost: h\r\n\r\n']


def directed_clen(rng):
    cases = []
    for vals in CLEN_JUDGED + CLEN_UNJUDGED:
        tag = 'clen-invalid' if vals in CLEN_JUDGED else 'clen-lenient'
        for h in CLEN_HEADS:
            for body in CLEN_BODIES:
                n = len(body) or 5
                fields = [v.replace(b'%N', b'%d' % n).replace(b'%M', b'%d' % (n + 1)) for v in vals]
                head = h + b''.join(b'Content-Length: ' + v + CRLF for v in fields) + CRLF
                k = rng.randint(1, len(head) - 1)
                ways = [('no-body', [head])] if not body else [
                    ('body-same-read', [head + body]), ('body-later-read', [head, body]),
                    ('head-cut+body-later', [head[:k], head[k:], body]), ('body-cut', [head + body[:2], body[2:]])]
                for how, segs in ways:
                    cases.append({'kind': 'conn', 'beh': 'ok', 'secure': 0, 'steps': close_script(script(rng, segs)),
                                  'ops': ['directed', tag, how]})
                if rng.random() < 0.3:
                    how, segs = rng.choice(ways)
                    cases.append({'kind': 'conn', 'beh': rng.choice(['raise', 'http403', 'badbody', 'ok']), 'secure': 0,
                                  'steps': close_script(script(rng, segs, queued=rng.random() < 0.5)),
                                  'ops': ['directed', tag, how, 'variant']})
    # on a kept-alive connection after a well-formed request
    good = b'GET /first HTTP/1.1\r\nHost: h\r\n\r\n'
    for vals in CLEN_JUDGED:
        body = rng.choice(CLEN_BODIES[1:])
        n = len(body)
        fields = [v.replace(b'%N', b'%d' % n).replace(b'%M', b'%d' % (n + 1)) for v in vals]
        head = CLEN_HEADS[0] + b''.join(b'Content-Length: ' + v + CRLF for v in fields) + CRLF
        cases.append({'kind': 'conn', 'beh': 'ok', 'secure': 0, 'steps': close_script(script(rng, [good, head, body])),
                      'ops': ['directed', 'clen-invalid', 'keepalive', 'body-later-read']})
    return cases


# directed: chunk-size lines that are not 1*HEXDIG x where they stand x what follows x how the bytes are delivered
# (clause (vi)).  The third group is the leniency that is counted and NOT judged.
CHUNK_UNPARSABLE = [b'zz', b'', b'1g', b'-', b'+', b'0x', b'- 1', b'3_', b'_3', b'1 2', b'--1', b'+-1', b'0x-1', b'1__2', b'x1',
                    b'5.', b'zz;ext=1']
CHUNK_NEGATIVE = [b'-1', b'-5', b'-a', b'-ff', b'-0x1', b' -1', b'-1 ', b'-1;ext', b'-2;a=b', b'-0001', b'-1_2', b'\t-2', b'-7',
                  b'-1f']
CHUNK_LENIENT = [b'+3', b' 3', b'3 ', b'\t3', b'0x3', b'0X3', b'0_3', b'+0', b'-0', b'0x0', b' 0', b'0 ', b'0_0', b'-00', b'\x0b3',
                 b'\x0c0', b'1_0', b'+3;x', b'0x_3']
CHUNK_HEADS = [b'POST /p HTTP/1.1\r\nHost: h\r\nTransfer-Encoding: chunked\r\n\r\n',
               b'PUT /a/b HTTP/1.1\r\nHost: h\r\nAccept: */*\r\nTransfer-Encoding: Chunked\r\n\r\n',
               b'POST /q HTTP/1.0\r\nConnection: keep-alive\r\nTransfer-Encoding: chunked\r\n\r\n']
CHUNK_BEFORE = [('first', b''), ('after-chunk', b'3\r\nabc\r\n'), ('after-chunks', b'3;x=1\r\nabc\r\n2\r\nde\r\n')]
# what follows the line's CRLF: an empty line (= what follows a last-chunk), a trailer section, data and a real
# last-chunk, nothing
CHUNK_AFTER = [('blank', b'\r\n'), ('trailer', b'X-T: v\r\n\r\n'), ('data+last', b'abc\r\n0\r\n\r\n'), ('nothing', b'')]
# what the client sends afterwards, believing it is still inside its body
CHUNK_REST = [('rest-chunks', [b'5\r\nhello\r\n0\r\n\r\n']), ('rest-request', [b'GET /evil HTTP/1.1\r\nHost: h\r\n\r\n']),
              ('rest-blank-then-chunks', [b'\r\n', b'5\r\nhello\r\n0\r\n\r\n'])]


def directed_chunk(rng):
    cases = []

    def add(segs, tags, beh='ok', queued=False):
        cases.append({'kind': 'conn', 'beh': beh, 'secure': 0, 'steps': close_script(script(rng, segs, queued=queued)),
                      'ops': ['directed'] + tags})

    n = 0
    for group, tag in ((CHUNK_UNPARSABLE, 'chunk-unparsable'), (CHUNK_NEGATIVE, 'chunk-negative'), (CHUNK_LENIENT, 'chunk-lenient')):
        for bad in group:
            befores = CHUNK_BEFORE if tag != 'chunk-lenient' else [CHUNK_BEFORE[len(cases) % 2]]
            for where, before in befores:
                if where == 'after-chunks' and rng.random() < 0.5:
                    continue
                for what, after in CHUNK_AFTER:
                    n += 1
                    head = CHUNK_HEADS[n % len(CHUNK_HEADS)]
                    upto = head + before + bad + CRLF
                    k = rng.randint(0, len(bad) + 1)                    # inside the line / between its CR and LF
                    cutat = len(head) + len(before) + k
                    ways = [('one-read', [upto + after]), ('head|body', [head, before + bad + CRLF + after]),
                            ('line-cut', [upto[:cutat], upto[cutat:] + after])]
                    if after:
                        ways.append(('line|rest', [upto, after]))
                    if tag == 'chunk-lenient':
                        ways = [ways[0], rng.choice(ways[1:])]
                    for how, segs in ways:
                        add(segs, [tag, where, what, how])
                    if what != 'data+last':
                        # the connection goes on: the rest of what the client thinks is its body
                        how, segs = rng.choice(ways)
                        rname, rest = CHUNK_REST[n % len(CHUNK_REST)]
                        add(segs + rest, [tag, where, what, how, rname])
                    if rng.random() < 0.15:
                        how, segs = rng.choice(ways)
                        add(segs, [tag, where, what, how, 'variant'], beh=rng.choice(['raise', 'http403', 'badbody']),
                            queued=rng.random() < 0.5)
    # a negative size read as a slice bound ("the buffer minus its last n bytes"): what the parser did before
    # `fix: a negative chunk size is an invalid chunk size`; the outcome depended on where the reads were cut
    for neg, data in ((b'-2', b'anything at all, any length'), (b'-2;x', b'GET /evil HTTP/1.1\r\nHost: h\r\n'), (b'-7', b''),
                      (b'-5', b''), (b'-4', b'xy'), (b'-a', b'0123456789')):
        for hi, head in enumerate(CHUNK_HEADS):
            for where, before in CHUNK_BEFORE[:2]:
                line = neg + CRLF + data + CRLF
                last = b'0\r\n\r\n'
                tags = ['chunk-negative', 'slice', where]
                add([head + before + line, last], tags + ['line+data|last-chunk'])
                add([head + before + line + last], tags + ['one-read'])
                add([head, before + line, CHUNK_REST[0][1][0]], tags + ['head|line+data|rest-chunks'])
                if hi == 0:
                    k = rng.randint(1, len(line) - 1)
                    add([head + before + line[:k], line[k:], last], tags + ['line+data cut|last-chunk'])
                    add([head + before + line + last[:3], last[3:]], tags + ['last-chunk cut'])
    # on a kept-alive connection after a well-formed chunked request that ended at a read boundary
    good = b'POST /first HTTP/1.1\r\nHost: h\r\nTransfer-Encoding: chunked\r\n\r\n3\r\nabc\r\n0\r\n\r\n'
    for bad in CHUNK_UNPARSABLE[:6] + CHUNK_NEGATIVE[:8]:
        tag = 'chunk-unparsable' if bad in CHUNK_UNPARSABLE else 'chunk-negative'
        add([good, CHUNK_HEADS[0] + b'3\r\nabc\r\n' + bad + CRLF2, CHUNK_REST[0][1][0]], [tag, 'keepalive', 'blank', 'one-read', 'rest-chunks'])
        add([good, CHUNK_HEADS[0] + b'3\r\nabc\r\n' + bad + CRLF, CRLF], [tag, 'keepalive', 'blank', 'line|rest'])
    return cases


def cut(rng, data, k):
    if len(data) < 2 or k <= 0:
        return [data]
    pts = sorted(rng.sample(range(1, len(data)), min(k, len(data) - 1)))
    segs, prev = [], 0
    for p in pts:
        segs.append(data[prev:p])
        prev = p
    segs.append(data[prev:])
    return segs


def script(rng, segs, sock=1, queued=False):
    steps = [['r', sock, hx(s)] for s in segs if s]
    if steps and queued:
        steps[-1][0] = 'rd'
    return steps


def directed_interpreted(rng):
    """every value of every interpreted header x every way of ending up with an error page (or a plain answer): the error path
    reads request headers too (content negotiation of the error document, connection handling)"""
    ways = [
        ('ok', b'GET / HTTP/1.1\r\nHost: h\r\n', 'answered'),
        ('ok', b'GET / HTTP/1.1\r\n', 'no-host'),
        ('ok', b'GET / HTTP/2.0\r\nHost: h\r\n', 'version'),
        ('ok', b'GET //etc/passwd HTTP/1.1\r\nHost: h\r\n', 'path-guard'),
        ('raise', b'GET / HTTP/1.1\r\nHost: h\r\n', 'handler-raises'),
        ('http403', b'GET / HTTP/1.1\r\nHost: h\r\n', 'handler-forbids'),
        ('ok', b'POST / HTTP/1.1\r\nHost: h\r\nContent-Length: x\r\n', 'bad-length'),
    ]
    cases = []
    for name in sorted(INTERPRETED_HEADERS):
        for val in INTERPRETED_HEADERS[name]:
            for beh, head, tag in ways:
                msg = head + name + b': ' + val + CRLF + CRLF
                segs = cut(rng, msg, rng.choice([0, 0, 1]))
                cases.append({'kind': 'conn', 'beh': beh, 'secure': 0, 'steps': close_script(script(rng, segs)),
                              'ops': ['interpreted-header', 'error-path:' + tag]})
    return cases


def gen_cases(ctx):
    rng = ctx.rng
    sc = ctx.scale
    cases = []
    cases += directed_interpreted(rng)
    cases += directed_odd_lines(rng)
    # fixed + every truncation point of the fixed ones (deliver the prefix, then disconnect)
    for msg, beh in FIXED:
        cases.append({'kind': 'conn', 'beh': beh, 'secure': 0, 'steps': close_script(script(rng, [msg])), 'ops': ['fixed']})
        cases.append({'kind': 'conn', 'beh': beh, 'secure': 0, 'steps': close_script(script(rng, [msg], queued=True)), 'ops': ['fixed', 'queued-disconnect']})
    cases += directed_clen(rng)
    cases += directed_chunk(rng)
    bases = list(c13.FIXED_REQUESTS) + [c13.gen_request(rng, maxbody=30) for _ in range(4 * sc)]
    for msg in bases[: (10 if sc == 1 else 40)]:
        offs = range(1, len(msg)) if len(msg) < 90 or sc > 1 else sorted(rng.sample(range(1, len(msg)), 60))
        for k in offs:
            cases.append({'kind': 'conn', 'beh': 'ok', 'secure': 0, 'steps': close_script(script(rng, [msg[:k]])), 'ops': ['truncation']})
    # TLS prefixes, both kinds of server
    for t in TLS:
        for sec in (0, 1):
            cases.append({'kind': 'conn', 'beh': 'ok', 'secure': sec, 'steps': close_script(script(rng, [t])), 'ops': ['tls-hello']})
            cases.append({'kind': 'conn', 'beh': 'ok', 'secure': sec,
                          'steps': close_script(script(rng, [t, b'GET / HTTP/1.1\r\nHost: h\r\n\r\n'])), 'ops': ['tls-hello']})
    # mutations
    n = 420 * sc
    for _ in range(n):
        msg = rng.choice(bases) if rng.random() < 0.5 else c13.gen_request(rng, maxbody=30)
        names = []
        for _k in range(rng.choice([1, 1, 1, 2, 2, 3])):
            name, fn = rng.choice(MUTATORS)
            msg = fn(rng, msg)
            names.append(name)
        if rng.random() < 0.12:
            msg = msg[:rng.randint(0, len(msg))]
            names.append('truncation')
        if not msg:
            continue
        beh = rng.choice(['ok'] * 8 + ['raise', 'http403', 'badbody'])
        segs = cut(rng, msg, rng.choice([0, 0, 1, 2, 3]))
        j = msg.find(CRLF2)
        if 'content-length' in names and 0 < j + 4 < len(msg) and rng.random() < 0.5:
            # header block and body in separate reads
            segs = cut(rng, msg[:j + 4], rng.choice([0, 0, 1])) + cut(rng, msg[j + 4:], rng.choice([0, 0, 1]))
            names.append('body-later-read')
        elif 'chunk-size' in names and 0 < j + 4 < len(msg) and rng.random() < 0.5:
            # header block and chunked body in separate reads; sometimes the client carries on afterwards
            segs = cut(rng, msg[:j + 4], rng.choice([0, 0, 1])) + cut(rng, msg[j + 4:], rng.choice([0, 1, 2]))
            names.append('body-later-read')
            if rng.random() < 0.4:
                segs.append(rng.choice(CHUNK_REST)[1][0])
                names.append('rest-later-read')
        steps = script(rng, segs, queued=rng.random() < 0.25)
        r = rng.random()
        if r < 0.15 and len(steps) > 1:
            steps.insert(rng.randint(1, len(steps) - 1), ['d', 1])      # disconnect in the middle, then the rest arrives
        cases.append({'kind': 'conn', 'beh': beh, 'secure': 1 if rng.random() < 0.05 else 0, 'steps': close_script(steps), 'ops': names})
    # keep-alive: good requests, then a mutated one; two interleaved connections
    for _ in range(40 * sc):
        good = [c13.gen_request(rng, maxbody=12) for _ in range(rng.randint(1, 2))]
        good = [g.replace(b'HTTP/1.0', b'HTTP/1.1') if b'Host' in g else g for g in good]
        name, fn = rng.choice(MUTATORS)
        bad = fn(rng, c13.gen_request(rng, maxbody=12))
        steps = []
        for g in good:
            steps += script(rng, cut(rng, g, rng.choice([0, 1, 2])))
        steps += script(rng, cut(rng, bad, rng.choice([0, 1])))
        other = script(rng, cut(rng, fn(rng, c13.gen_request(rng, maxbody=12)), rng.choice([0, 1, 2])), sock=2)
        if rng.random() < 0.6:
            merged = []
            a, b = list(steps), list(other)
            while a or b:
                src = a if (a and (not b or rng.random() < 0.5)) else b
                merged.append(src.pop(0))
            if rng.random() < 0.4 and merged:
                merged.insert(rng.randint(0, len(merged)), ['d', rng.choice([1, 2])])
            steps = merged
        cases.append({'kind': 'conn', 'beh': rng.choice(['ok'] * 6 + ['raise', 'badbody']), 'secure': 0,
                      'steps': close_script(steps), 'ops': ['keepalive', name]})
    return cases


def params(ctx):
    from circuits.web.constants import SERVER_PROTOCOL
    ctx.param('SERVER_PROTOCOL == (1, 1) (model: responses are HTTP/1.0 or HTTP/1.1; 505 iff request major != 1)',
              tuple(SERVER_PROTOCOL) == (1, 1), repr(SERVER_PROTOCOL))
    import circuits.web.parsers.http as ph
    ctx.param('errno constants BAD_FIRST_LINE, INVALID_HEADER, INVALID_CHUNK = 0, 1, 2',
              (ph.BAD_FIRST_LINE, ph.INVALID_HEADER, ph.INVALID_CHUNK) == (0, 1, 2),
              repr((ph.BAD_FIRST_LINE, ph.INVALID_HEADER, ph.INVALID_CHUNK)))
    from circuits.web.constants import HTTP_STATUS_CODES
    codes = [400, 505, 301, 500, 403]
    ok = all(c in HTTP_STATUS_CODES and re.fullmatch(r'[A-Za-z ]+', HTTP_STATUS_CODES[c]) for c in codes)
    ctx.param('reason phrases of the rejection statuses are plain words (hypothesis wfHead of C14.error_response_valid)',
              ok, repr({c: HTTP_STATUS_CODES.get(c) for c in codes}))
    from circuits.web.errors import httperror
    import inspect
    src = inspect.getsource(httperror.__init__)
    ctx.param('httperror sets response.close = True (model: errResp.forceClose)', 'self.response.close = True' in src, '')


def run(ctx):
    ctx.rule = ('mutation operators over the C13 request grammar (12: request line, version, header syntax, oversized header, '
                'Content-Length values, CL+TE, chunk size, escapes, NUL/high bytes, TLS hello, Host/Cookie, line ends; 1-3 '
                'applied) + truncation at every offset of base messages + TLS/SSLv2 hello prefixes on plain and secure '
                'servers + keep-alive sequences ending in a mutated request + two interleaved connections; 0-3 random cuts; '
                'disconnect at the end, in the middle, or queued together with the last read; handler behaviours ok / raise / '
                'HTTPException / unencodable body; directed: invalid Content-Length framing (non-decimal value, two '
                'different values, one list-valued field; and the lenient shapes -n, +n, repeated identical as unjudged '
                'controls) x 3 request heads x header block and body in the same read / in separate reads / header block '
                'cut / body cut / no body at all, also after a well-formed request on the same connection, and random '
                'Content-Length mutations delivered with the body in a later read; directed: chunk-size lines that are not '
                '1*HEXDIG (17 that are no number, 14 negative numbers - plus 6 negative sizes with data shaped so that a '
                'parser using the size as a slice bound reaches a last-chunk -, 19 that int(x,16) reads as a number >= 0 = unjudged '
                'controls: sign, padding whitespace, 0x, underscores) as first chunk / after strictly framed chunks x followed '
                'by an empty line / a trailer section / data and a last-chunk / nothing x one read / header block and body '
                'in separate reads / cut inside the line or between its CR and LF / line and rest in separate reads, with '
                'and without later reads carrying more chunks, a blank line, or a request, also after a well-formed chunked '
                'request on the same connection; the same shapes are in the random chunk-size mutator. Clause (vi) '
                '(malformed-dispatched(chunk-size), body-parsed-as-request) is evaluated by strict_chunks (RFC 7230 4.1) on '
                'the delivered bytes and the request/write/close events, independent of the implementation\'s lexer and '
                'of the model. Clause (v) '
                '(malformed-dispatched(content-length), body-parsed-as-request) is a spec-on-impl clause: it is evaluated by '
                'the harness (strict_head, an RFC 7230 3.3.2/3.3.3 reading of the delivered bytes) on the implementation\'s '
                'request/write/close events only; the Lean model takes no part in it (histogram framing_oracle = judged '
                'messages). non-trivial = every case; distinct = distinct scripts')
    ctx.trusted += [
        'leaf functions (unicode_escape, regexes, urlsplit, Headers, int, wrappers.Request constructor, path guard) and '
        'which inputs make them raise are parameters of the model; instantiated per case by calling them separately',
        'network server emulated by the harness: no read is delivered on a socket after the component fired close for it; '
        'reads are non-empty; disconnect is delivered for every socket',
        'texts of the error responses (page, Date, Location) are taken from the implementation; status line, framing '
        'headers, order, write segmentation and close are the model\'s',
        'http.client.HTTPResponse as second, independent response parser',
    ]
    ctx.assumptions += [
        'not judged (the statement allows waiting): lenient acceptance (negative Content-Length = no body), a bad chunk size '
        'after complete headers and a TLS 1.x ClientHello (16 03 0x ..., compared with str literals in is_ssl_handshake) '
        'make the component wait for ever instead of answering 400 / closing',
        'clause (v) judges only Content-Length framing that the unchanged code rejects: not judged are values Python\'s int() '
        'accepts although RFC 7230 does not (-5 and -0 = no body, +5, 1_0: the unchanged code dispatches these), repeated '
        'identical values (rejected by the code, collapsible per RFC), any message with Transfer-Encoding, header blocks '
        'with escapes / folding / non-token names / control or high bytes, and messages whose start on the connection is '
        'not known from strict framing of what came before',
        'clause (vi) judges chunk-size lines that are no number and negative ones, in every position and every '
        'segmentation; not judged: lines int(x, 16) reads as a number >= 0 although RFC 7230 chunk-size = 1*HEXDIG does not '
        'allow them (+3, " 3", "3 ", 0x3, 0x_3, 1_0, -0, +0, 0x0, 0_0: the code carries on with that number and dispatches), '
        'chunk data not followed by CRLF, Transfer-Encoding other than the single coding chunked, Content-Encoding',
        'reads that a real server could still deliver between close(sock) and the disconnect are not explored',
    ]
    if not ctx.searching:
        params(ctx)
    corpus = ctx.corpus()
    if corpus:
        evaluate(ctx, corpus, shrink=False)
    cases = gen_cases(ctx)
    for i in range(0, len(cases), 200):
        evaluate(ctx, cases[i:i + 200])
        if ctx.time_up():
            return


def search(ctx):
    run(ctx)


def replay(ctx, case):
    if case.get('kind') == 'lexer':
        c13.eval_lexer(ctx, [case])
        return
    evaluate(ctx, [case], shrink=False)

import sys, json, random
import os; sys.path.insert(0, os.path.join(os.path.dirname(os.path.dirname(os.path.abspath(__file__))), 'harness'))
import framework
framework.setup_import_path()
import core_dsl, core_gen
class C: pass
ctx=C(); ctx.driver=framework.Driver()
feats=set(sys.argv[1].split(','))
tot=0;bl=0;bad=0
for seed in range(int(sys.argv[2]), int(sys.argv[3])):
    rng=random.Random(seed)
    scs=[core_gen.gen_run_scenario(rng,feats) for _ in range(200)]
    res=core_dsl.run_both(ctx,scs)
    for r in res:
        tot+=1; bl+= 1 if r.get('blocked') else 0
        d=core_dsl.compare(r)
        if d:
            bad+=1
            if bad<=2:
                print(seed, json.dumps(d)[:1500])
                i=d.get('op')
                if i is not None and 'pos' in d:
                    print(' IMPL ', r['impl'][i][1][max(0,d['pos']-12):d['pos']+6])
                    print(' MODEL', r['model'][i][1][max(0,d['pos']-12):d['pos']+6])
                print(json.dumps(r['sc'])[:2500])
print('total',tot,'blocked',bl,'bad',bad)

#!/usr/bin/env python3
"""Regenerates the `fixed` entries of known_findings.json from /repo's git log (fix: commits since the pinned snapshot)."""
import json
import os
import subprocess

HERE = os.path.dirname(os.path.dirname(os.path.abspath(__file__)))
RULES = [('body iterator that raises', 'C15'), ('client-side node protocol', 'C19'), ('a value keeps results and flags', 'C04'), ('parent link of a directory listing', 'C16'), ('answered once', 'C15'), ('redirect raised in a nested', 'C15'), ('failing coroutine handler marks its value', 'C15'), ('irc', 'C18'), ('websocket', 'C17'), ('static serves', 'C16'), ('get_ranges', 'C16'), ('check_auth', 'C20'),
         ('virtualhosts', 'C20'), ('head responses', 'C15'), ('chunked responses', 'C15'), ('streamed body', 'C15'),
         ('1xx, 204', 'C15'), ('205 responses', 'C15'), ('response.stream set', 'C15'), ('handler cache', 'C01'), ('removehandler', 'C01'),
         ('_success for an event', 'C04'), ('generator handler raises is still finished', 'C04/C05/C06'),
         ('cancelled event', 'C05'), ('later steps of a generator', 'C05'), ('manual tick', 'C05'),
         ('done and timeout coincide', 'C06'), ('wait() that times out', 'C06'), ('exit code', 'C08'), ('does not return while events', 'C08'),
         ('raises when resumed from call', 'C06'), ('catches timeouterror', 'C06'), ('stale waitevent closures', 'C06'), ("_on_done does nothing once", 'C06'), ('poller discard', 'C10'),
         ('epoll forgets', 'C12'), ('poll forgets', 'C10'), ('poll does not report', 'C10'), ('client._write', 'C11'), ('file._write', 'C11'),
         ('http drops the parser', 'C14'), ('negative chunk size', 'C14'), ('failing request or response handler', 'C14'), ('error responses carry', 'C14'),
         ('epoll', 'C12'), ('late write', 'C12'), ('_closeq', 'C12'), ('_buffers', 'C12')]
FILES = [('circuits/node/', 'C19'), ('circuits/core/events.py', 'C19'), ('circuits/web/parsers/http.py', 'C13'),
         ('circuits/web/http.py', 'C13'), ('circuits/net/sockets.py', 'C12'), ('circuits/core/pollers.py', 'C12')]


def prop_of(h, subj):
    s = subj.lower()
    for k, p in RULES:
        if k in s:
            return p
    files = subprocess.run(['git', '-C', '/repo', 'show', '--stat', '--format=', h], capture_output=True, text=True).stdout
    for k, p in FILES:
        if k in files:
            return p
    return '?'


log = subprocess.run(['git', '-C', '/repo', 'log', '--format=%h %s', '2ddfb23..HEAD'], capture_output=True, text=True).stdout
fixed = []
for line in reversed(log.strip().splitlines()):
    h, subj = line.split(' ', 1)
    if not subj.startswith('fix:'):
        continue
    for p in prop_of(h, subj).split('/'):
        fixed.append({'property': p, 'commit': h, 'what': f'fixed: property={p} {h} {subj[5:]}'})
path = os.path.join(HERE, 'known_findings.json')
kf = json.load(open(path))
kf['fixed'] = fixed
json.dump(kf, open(path, 'w'), indent=1)
print(len(fixed), 'fixed entries; unmatched:', [f['commit'] for f in fixed if f['property'] == '?'])

#!/usr/bin/env python3
"""seed_eval_par.py <Cxx> <dir with patch.diff demo.py notes.md> <name> [--checks C01,C07] [--tier quick] [--seed N]

Like seed_eval.py, but never touches /repo or /verif/evidence, so that many seeded changes can be evaluated at once:
the change is confirmed in a scratch worktree of /repo (demo passes on the clean tree, fails with the patch, the relevant
tests still pass), then the property's check is run from /verif against that worktree (VERIF_REPO) with its output
(evidence, replays) redirected to a scratch directory (VERIF_OUT).  The result is filed under /verif/seeded/<name>/.
The worktree and the scratch output are removed afterwards (the replays named by VIOLATION lines are summarised first).
"""
import argparse
import json
import os
import shutil
import subprocess
import sys

HERE = os.path.dirname(os.path.dirname(os.path.abspath(__file__)))
ap = argparse.ArgumentParser()
ap.add_argument('prop')
ap.add_argument('src')
ap.add_argument('name')
ap.add_argument('--checks', default='')
ap.add_argument('--tier', default='quick')
ap.add_argument('--seed', default='0')
ap.add_argument('--skip-tests', action='store_true', help='reuse tests_pass of an existing meta.json (patch unchanged)')
a = ap.parse_args()
prop, src, name = a.prop, os.path.abspath(a.src), a.name
patch = os.path.join(src, 'patch.diff')
demo = os.path.join(src, 'demo.py')
wt = f'/tmp/sv-{name}'
outdir = f'/tmp/svout-{name}'


def sh(cmd, **kw):
    try:
        return subprocess.run(cmd, capture_output=True, text=True, **kw)
    except subprocess.TimeoutExpired as e:
        class R:
            returncode = 124
            stdout = (e.stdout or b'').decode() if isinstance(e.stdout, bytes) else (e.stdout or '')
            stderr = 'TIMEOUT'
        return R()


sh(['git', '-C', '/repo', 'worktree', 'remove', '--force', wt])
shutil.rmtree(wt, ignore_errors=True)
shutil.rmtree(outdir, ignore_errors=True)
sh(['git', '-C', '/repo', 'worktree', 'prune'])
r = sh(['git', '-C', '/repo', 'worktree', 'add', '--detach', wt, 'HEAD'])
if r.returncode != 0:
    print('cannot create worktree', r.stderr)
    sys.exit(2)
meta = {'property': prop, 'name': name}
try:
    env = dict(os.environ, PYTHONPATH=wt, PYTHONDONTWRITEBYTECODE='1')
    r0 = sh(['/venv/bin/python', demo], cwd=wt, env=env, timeout=180)
    meta['demo_clean_exit'] = r0.returncode
    ap_ = sh(['git', '-C', wt, 'apply', patch])
    meta['patch_applies'] = ap_.returncode == 0
    files = [l.split('|')[0].strip() for l in sh(['git', '-C', wt, 'diff', '--stat']).stdout.splitlines() if '|' in l]
    meta['files'] = files
    r1 = sh(['/venv/bin/python', demo], cwd=wt, env=env, timeout=180)
    meta['demo_patched_exit'] = r1.returncode
    meta['demo_patched_tail'] = (r1.stdout + r1.stderr)[-400:]
    dirs = set()
    for f in files:
        for key, d in (('circuits/core', 'tests/core'), ('circuits/web', 'tests/web'), ('circuits/net', 'tests/net'),
                       ('circuits/io', 'tests/io'), ('circuits/node', 'tests/node'), ('circuits/protocols', 'tests/protocols'),
                       ('circuits/tools', 'tests/tools')):
            if f.startswith(key):
                dirs.add(d)
        if f.startswith('circuits/core'):
            dirs.update(['tests/web', 'tests/net', 'tests/node', 'tests/io', 'tests/app'])
        if f.startswith('circuits/protocols/websocket') or f.startswith('circuits/protocols/http'):
            dirs.add('tests/web')
        if f.startswith('circuits/net') or f.startswith('circuits/io'):
            dirs.update(['tests/web', 'tests/node'])
    # the three tests below fork / daemonise / signal and hang now and then when 20 suites run side by side in this sandbox
    # (the agents that produced the changes ran them; seed_eval.py leaves them out for the same reason)
    desel = ['--deselect', 'tests/net/test_tcp.py::test_tcp_lookup_failure', '--deselect', 'tests/core/test_signals.py',
             '--deselect', 'tests/app/test_daemon.py', '--deselect', 'tests/core/test_bridge.py']
    prev = None
    try:
        prev = json.load(open(os.path.join(HERE, 'seeded', name, 'meta.json')))
    except Exception:
        pass
    if a.skip_tests and prev and prev.get('tests_pass'):
        meta['tests_run'] = prev.get('tests_run')
        meta['tests_tail'] = prev.get('tests_tail', '') + ' (reused; patch unchanged)'
        meta['tests_pass'] = True
    else:
        t = sh(['/venv/bin/python', '-m', 'pytest', '-q', '-p', 'no:cacheprovider', '--timeout=300'] + desel + sorted(dirs),
               cwd=wt, env=env, timeout=1500)
        if t.returncode != 0:
            failed = [l.split()[1] for l in t.stdout.splitlines() if l.startswith('FAILED')]
            meta['tests_first_failures'] = failed
            if failed:
                # load-sensitive tests: one retry of the failures only
                t = sh(['/venv/bin/python', '-m', 'pytest', '-q', '-p', 'no:cacheprovider', '--timeout=300'] + desel
                       + [f.split(' - ')[0] for f in failed], cwd=wt, env=env, timeout=900)
        meta['tests_run'] = sorted(dirs)
        meta['tests_tail'] = t.stdout.strip().splitlines()[-1] if t.stdout.strip() else ''
        meta['tests_pass'] = t.returncode == 0
    valid = meta['demo_clean_exit'] == 0 and meta['patch_applies'] and meta['demo_patched_exit'] == 1 and meta['tests_pass']
    meta['valid'] = valid
    if valid:
        checks = [c for c in a.checks.split(',') if c] or [prop]
        os.makedirs(outdir, exist_ok=True)
        meta['checks'] = {}
        for chk in checks:
            cenv = dict(os.environ, VERIF_SEED=a.seed, VERIF_REPO=wt, VERIF_OUT=outdir)
            cenv.pop('PYTHONPATH', None)
            c = sh([os.path.join(HERE, 'check'), chk, '--tier', a.tier], cwd=HERE, env=cenv, timeout=3000)
            sigs = []
            for l in c.stdout.splitlines():
                if l.startswith('VIOLATION'):
                    pth = l.split('replay=')[1].split()[0]
                    try:
                        sigs.append(json.load(open(pth)).get('signature'))
                    except Exception:
                        sigs.append('?')
            meta['checks'][chk] = {'exit': c.returncode, 'signatures': sigs,
                                   'tail': [l.replace(outdir, '<scratch>') for l in c.stdout.strip().splitlines()[-8:]],
                                   'stderr_tail': c.stderr.strip().splitlines()[-3:] if c.returncode not in (0, 1) else []}
        meta['check_exit'] = meta['checks'][checks[0]]['exit']
        meta['check_signatures'] = meta['checks'][checks[0]]['signatures']
        meta['check_tail'] = meta['checks'][checks[0]]['tail']
        meta['ran'] = ['demo on clean worktree (exit 0)', 'demo with patch (exit 1)',
                       f"pytest {' '.join(meta['tests_run'] or [])} with patch",
                       f"./check {','.join(checks)} --tier {a.tier} (VERIF_SEED={a.seed}) from /verif against a scratch worktree of "
                       f"/repo with the patch applied (VERIF_REPO), output redirected (VERIF_OUT); worktree removed afterwards"]
    out = os.path.join(HERE, 'seeded', name)
    os.makedirs(out, exist_ok=True)
    if os.path.abspath(out) != src:
        for f in ('patch.diff', 'demo.py', 'notes.md'):
            if os.path.exists(os.path.join(src, f)):
                shutil.copy(os.path.join(src, f), os.path.join(out, f))
    json.dump(meta, open(os.path.join(out, 'meta.json'), 'w'), indent=1)
finally:
    sh(['git', '-C', '/repo', 'worktree', 'remove', '--force', wt])
    shutil.rmtree(wt, ignore_errors=True)
    shutil.rmtree(outdir, ignore_errors=True)
brief = {k: meta.get(k) for k in ('name', 'valid', 'demo_clean_exit', 'demo_patched_exit', 'patch_applies', 'tests_pass', 'tests_tail',
                                  'check_exit', 'check_signatures')}
print(json.dumps(brief, indent=1))

#!/usr/bin/env python3
"""harmless_drill.py [Cxx ...]: applies each behaviour-preserving refactoring under seeded/harmless/<id>/patch.diff to a scratch
worktree of /repo and runs that property's quick check (plus the checks of the other properties anchored in the changed files)
against it: every run must exit 0. Output redirected (VERIF_OUT); nothing in /repo or /verif/evidence is touched."""
import json
import os
import shutil
import subprocess
import sys
from concurrent.futures import ThreadPoolExecutor

HERE = os.path.dirname(os.path.dirname(os.path.abspath(__file__)))
props = {}
for l in open(os.path.join(HERE, 'properties.jsonl')):
    p = json.loads(l)
    props[p['id']] = p['anchors']['files']


def one(pid):
    patch = os.path.join(HERE, 'seeded', 'harmless', pid, 'patch.diff')
    wt, out = f'/tmp/hd-{pid}', f'/tmp/hdout-{pid}'
    subprocess.run(['git', '-C', '/repo', 'worktree', 'remove', '--force', wt], capture_output=True)
    shutil.rmtree(wt, ignore_errors=True)
    subprocess.run(['git', '-C', '/repo', 'worktree', 'prune'], capture_output=True)
    subprocess.run(['git', '-C', '/repo', 'worktree', 'add', '--detach', wt, 'HEAD'], capture_output=True)
    res = {'patch': pid, 'applies': False, 'checks': {}}
    try:
        a = subprocess.run(['git', '-C', wt, 'apply', patch], capture_output=True, text=True)
        res['applies'] = a.returncode == 0
        if not res['applies']:
            res['why'] = a.stderr[-200:]
            return res
        files = [l.split('|')[0].strip() for l in subprocess.run(['git', '-C', wt, 'diff', '--stat'], capture_output=True, text=True).stdout.splitlines() if '|' in l]
        checks = [pid] + sorted(q for q, fs in props.items() if q != pid and any(f in fs for f in files))
        for c in checks:
            env = dict(os.environ, VERIF_REPO=wt, VERIF_OUT=out, VERIF_SEED='0')
            r = subprocess.run([os.path.join(HERE, 'check'), c, '--tier', 'quick'], cwd=HERE, env=env, capture_output=True, text=True)
            res['checks'][c] = {'exit': r.returncode, 'tail': r.stdout.strip().splitlines()[-1:] if r.returncode else []}
    finally:
        subprocess.run(['git', '-C', '/repo', 'worktree', 'remove', '--force', wt], capture_output=True)
        shutil.rmtree(out, ignore_errors=True)
    return res


want = [a.upper() for a in sys.argv[1:]] or sorted(d for d in os.listdir(os.path.join(HERE, 'seeded', 'harmless')) if d.startswith('C'))
with ThreadPoolExecutor(4) as ex:
    results = list(ex.map(one, want))
bad = 0
for r in results:
    ok = r['applies'] and all(v['exit'] == 0 for v in r['checks'].values())
    bad += 0 if ok or not r['applies'] else 1
    print(r['patch'], 'applies' if r['applies'] else 'DOES-NOT-APPLY', {k: v['exit'] for k, v in r['checks'].items()}, '' if ok else r)
json.dump(results, open(os.path.join(HERE, 'seeded', 'harmless', 'drill.json'), 'w'), indent=1)
sys.exit(1 if bad else 0)

#!/venv/bin/python
"""impl_coverage.py [Cxx ...]   (default: all 20)

Measures which lines of the files each property is anchored in (properties.jsonl, anchors.files) are executed on the
*implementation* side while the property's quick check runs - i.e. how much of the anchored code the correspondence
actually drives.  A line the check never executes is a line whose mutation the correspondence cannot see; the report
lists, per property and anchored file, the functions with unexecuted lines.  This is a measurement of the tie (the
differential run), not a proof and not part of any verdict; results go to /verif/coverage/<id>.json + SUMMARY.md.

The check runs from /verif against /repo with its evidence/replays redirected to a scratch directory (VERIF_OUT).
"""
import ast
import json
import os
import shutil
import subprocess
import sys
import tempfile

HERE = os.path.dirname(os.path.dirname(os.path.abspath(__file__)))
REPO = os.environ.get('VERIF_REPO', '/repo')
OUTD = os.path.join(HERE, 'coverage')


def functions_of(path):
    """[(qualname, first, last, set(executable-ish lines))]"""
    src = open(path).read()
    tree = ast.parse(src)
    res = []

    def walk(node, prefix):
        for ch in ast.iter_child_nodes(node):
            if isinstance(ch, (ast.FunctionDef, ast.AsyncFunctionDef)):
                q = prefix + ch.name
                res.append((q, ch.lineno, ch.end_lineno))
                walk(ch, q + '.')
            elif isinstance(ch, ast.ClassDef):
                walk(ch, prefix + ch.name + '.')
            else:
                walk(ch, prefix)
    walk(tree, '')
    return res


def run_one(prop, anchors):
    work = tempfile.mkdtemp(prefix=f'cov-{prop}-')
    try:
        rc_file = os.path.join(work, 'rc')
        with open(rc_file, 'w') as fh:
            fh.write('[run]\nbranch = False\nparallel = True\nconcurrency = thread\n'
                     f'data_file = {work}/.coverage\nsource = {REPO}/circuits\n')
        env = dict(os.environ, VERIF_OUT=work, VERIF_SEED='0', COVERAGE_RCFILE=rc_file, VERIF_REPO=REPO,
                   VERIF_CHILD='1')   # run the verdict procedure in this (measured) process, not under the supervisor
        p = subprocess.run(['/venv/bin/python', '-m', 'coverage', 'run', os.path.join(HERE, 'check'), prop, '--tier', 'quick'],
                           cwd=HERE, env=env, capture_output=True, text=True, timeout=3600)
        subprocess.run(['/venv/bin/python', '-m', 'coverage', 'combine'], cwd=work, env=env, capture_output=True, text=True)
        js = os.path.join(work, 'cov.json')
        subprocess.run(['/venv/bin/python', '-m', 'coverage', 'json', '-o', js], cwd=work, env=env, capture_output=True, text=True)
        data = json.load(open(js)) if os.path.exists(js) else {'files': {}}
        rep = {'property': prop, 'check_exit': p.returncode, 'check_tail': p.stdout.strip().splitlines()[-1:] , 'files': {}}
        for f in anchors:
            full = os.path.join(REPO, f)
            ent = None
            for k, v in data['files'].items():
                if os.path.realpath(k) == os.path.realpath(full):
                    ent = v
            if ent is None:
                rep['files'][f] = {'executed': 0, 'missing': None, 'note': 'file never imported during the check'}
                continue
            missing = set(ent['missing_lines'])
            executed = set(ent['executed_lines'])
            funcs = []
            for q, a, b in functions_of(full):
                body = [l for l in range(a, b + 1) if l in missing or l in executed]
                miss = [l for l in body if l in missing]
                if miss and body:
                    funcs.append({'function': q, 'lines': f'{a}-{b}', 'missing': miss, 'fraction_executed': round(1 - len(miss) / len(body), 2)})
            rep['files'][f] = {'executed': len(executed), 'missing': len(missing),
                               'percent': round(100.0 * len(executed) / max(1, len(executed) + len(missing)), 1),
                               'functions_with_unexecuted_lines': funcs}
        return rep
    finally:
        shutil.rmtree(work, ignore_errors=True)


def main():
    props = {}
    for l in open(os.path.join(HERE, 'properties.jsonl')):
        p = json.loads(l)
        props[p['id']] = p['anchors']['files']
    want = [a.upper() for a in sys.argv[1:]] or sorted(props)
    os.makedirs(OUTD, exist_ok=True)
    for prop in want:
        rep = run_one(prop, props[prop])
        json.dump(rep, open(os.path.join(OUTD, f'{prop}.json'), 'w'), indent=1)
        print(prop, rep['check_exit'], {f: v.get('percent') for f, v in rep['files'].items()}, flush=True)


if __name__ == '__main__':
    main()


def summary():
    """coverage/SUMMARY.md: per property the executed share of each anchored file, and per file the functions with lines that
    no check anchored in that file ever executes (the blind spots of the correspondence)"""
    import glob
    reps = [json.load(open(f)) for f in sorted(glob.glob(os.path.join(OUTD, 'C*.json')))]
    out = ['# Implementation-side coverage of the quick checks (measured by tools/impl_coverage.py; not part of any verdict)', '',
           '| property | anchored file | lines executed by the check |', '|---|---|---|']
    never = {}
    for r in reps:
        for fn, v in r['files'].items():
            out.append(f"| {r['property']} | {fn} | {v.get('percent', 'never imported')} % |")
            if v.get('missing') is None:
                continue
            cur = {x['function']: set(x['missing']) for x in v['functions_with_unexecuted_lines']}
            if fn not in never:
                never[fn] = cur
            else:
                never[fn] = {q: (never[fn][q] & cur[q]) for q in never[fn] if q in cur}
    out += ['', '## Lines no check anchored in the file executes (by function)', '']
    for fn in sorted(never):
        items = [f'{q} ({len(m)})' for q, m in sorted(never[fn].items()) if m]
        out.append(f'* `{fn}`: ' + (', '.join(items) if items else 'none'))
    open(os.path.join(OUTD, 'SUMMARY.md'), 'w').write('\n'.join(out) + '\n')


if __name__ == '__main__' and os.environ.get('IMPL_COVERAGE_SUMMARY', '1') == '1':
    summary()

#!/usr/bin/env python3
"""Regenerates /verif/MANIFEST.json from the table below (one entry per claimed property)."""
import json
import os

HERE = os.path.dirname(os.path.dirname(os.path.abspath(__file__)))
TECH = 'Lean 4 proof (induction / invariants over an executable model) + differential correspondence with the Python implementation'

CLAIMED = {
 'C15': dict(engine='lean-http', text=(
    'Lean 4 theorems for all request shapes, statuses, body kinds, part lists, sizes and request sequences about an '
    'executable model of Response.prepare / HTTP._on_response / _on_stream / _clients, including the byte-level round trip '
    'through an RFC 7230 reader written independently in Lean and the theorem that the run-time spec predicate (checkWire) '
    'holds of every model run. Model tied to the code by differential correspondence on every run (every write/close event, '
    '_clients entry, per request); checkWire and http.client.HTTPResponse are evaluated on the implementation\'s own bytes.'),
    note=('Proved: framing, delimiter choice, close-iff-announced, cleanup, sequence, whole-message round trip for the model. '
          'Validated not proved: model = code (full product of configurations + sizes to 70 KiB + random sequences). Trusted: request -> '
          '(HEAD?, version, keep-alive) derivation in the harness, utf-8 of str parts, file_generator piece size, Date masked, '
          'http.client as second reader. Assumptions: application does not set framing headers itself; stream=True only with '
          'iterator bodies; body iterators do not raise.')),
 'C16': dict(engine='lean-http', text=(
    'Lean 4 theorems over all request-path strings, all percent-decoders, all file systems, mount prefixes, and all Range header '
    'strings and files, about executable models of Static._on_request, get_ranges and the range part of serve_file: containment as a '
    'tree node, denotation, exact intervals, bytes and labels. Models tied to the code on every run by differential correspondence, '
    'called directly and behind the real HTTP component; spec predicates evaluated by the Lean driver on the implementation\'s behaviour.'),
    note=('Proved: contained, content_exact, ranges_sound, range_response_exact, static_answer under ProperRoot docroot and clean '
          'default-document names (checked against the live class each run). Validated not proved: Lean normpath/join/split/strip/unquote/'
          '_range_int equal the stdlib functions; the float stddev rule equals the integer comparison. Not modelled: listing HTML, multipart '
          'framing, conditional requests, symlinks.')),
 'C17': dict(engine='lean-proto', text=(
    'Lean 4 theorems over all payloads, lengths, masking keys, conforming frame lists (any fragmentation and ping/pong interleaving), '
    'all cut lists and all decoder states: the codec model writes exactly the RFC 6455 encoding, its decoder is a framing homomorphism, '
    'inverts an independently written RFC encoder, delivers exactly the RFC-level expected outputs and is silent after close. Model tied '
    'to circuits/protocols/websocket.py by differential correspondence and spec-on-impl on every run.'),
    note=('Proved about the model; model = code validated on real WebSocketCodec instances (server/client mode, constructor data). Trusted: '
          'utf-8 decode is identity on generated valid text, the harness RFC encoder (cross-checked with Lean\'s), os.urandom substitution. '
          'Handshake code not modelled. Parameter obligations: thresholds 125 / 0xFFFF and opcodes read from the live AST.')),
 'C18': dict(engine='lean-proto', text=(
    'Lean 4 theorems over all byte streams, cut lists, socket interleavings and all IRC prefix/command/argument strings about executable '
    'models of splitLines / Line._on_read / Message / parsemsg: segmentation homomorphism, lines_exact with uniqueness (complete spec), '
    'server isolation, one_line for every message and constructor, parse(render) round trip for well-formed messages. Tied to the code by '
    'differential correspondence; spec predicates evaluated by the Lean driver on the implementation\'s output.'),
    note=('Trusted: re.split(b"\\r?\\n") == CV.Line.scan (validated each run), UTF-8 round trip, parseprefix as a parameter. '
          'Round trip claimed for CV.Irc.wellFormed messages only (excluded shapes have decide-d witnesses).')),
 'C20': dict(engine='lean-auth', text=(
    'Lean 4 theorems for all header texts, user tables, realms, methods, encrypt variants and all instantiations of md5/base64/utf-8/'
    'tokeniser (auth soundness + completeness); for all request histories and any sha1 (session binding, fresh ids); for all gateway lists '
    '(forwarded-host trust) - about executable models tied to the code by differential correspondence on every run; spec predicates also '
    'evaluated on the implementation\'s own decisions.'),
    note=('Proved: decision logic of check_auth/basic_auth/digest_auth, verify_session/Sessions.request/MemoryStore, VirtualHosts routing '
          'choice. Validated only: hand translation; stdlib leaves computed by the real functions and fed to the model; md5 instantiation '
          'compared with hashlib each run; sha1 uninterpreted; uuid4 replaced by a seeded double and assumed unique. Not claimed: nonce '
          'freshness, md5/sha1 strength.')),
}

ENGINES = {
 'lean-core-machine': 'Lean 4 model of Manager/BaseComponent/Event/Value (CV.Model.Core.*), small-step machine CV.Model.Core.Step (cvdriver model `core2`, the one the checks use) and big-step CV.Model.Core.Machine (`core`, kept in sync by tools/diff_core.py), DSL harness core_dsl.py',
 'lean-wake': 'Lean 4 interleaving model of the fire()/generate_events wake-up protocol + controlled scheduler',
 'lean-net': 'Lean 4 models of pollers and stream endpoints + scripted socket doubles',
 'lean-http': 'Lean 4 models of the HTTP parser / response writer / static dispatcher + in-process HTTP harness',
 'lean-proto': 'Lean 4 models of line / IRC / WebSocket / node protocols + differential harness',
 'lean-auth': 'Lean 4 models of auth / sessions / virtual hosts + differential harness',
}


def main():
    # later additions are merged from tools/manifest_extra.json (written by the integrator)
    extra = os.path.join(HERE, 'tools', 'manifest_extra.json')
    claimed = dict(CLAIMED)
    if os.path.exists(extra):
        claimed.update(json.load(open(extra)))
    props = [json.loads(l) for l in open(os.path.join(HERE, 'properties.jsonl'))]
    checks = []
    for p in props:
        pid = p['id']
        if pid not in claimed:
            continue
        c = claimed[pid]
        checks.append({
            'property_id': pid,
            'quick_cmd': f'./check {pid} --tier quick',
            'thorough_cmd': f'./check {pid} --tier thorough',
            'evidence_file': f'/verif/evidence/{pid}.json',
            'replay_cmd_template': f'./check {pid} --replay {{path}}',
            'engine': c['engine'],
            'level_claimed': {'category': 'proof', 'text': c['text'], 'design_ref': f'DESIGN.md section 6, {pid}'},
            'level_note': c['note'],
            'technique': c.get('technique', TECH),
        })
    used = sorted({c['engine'] for c in claimed.values()})
    m = {
        'version': 1,
        'setup_cmd': 'cd /verif/lean && lake build CV cvdriver && cd /verif && ./check --selftest',
        'hooks': {
            'guard': 'CIRCUITS_VERIF',
            'enable': 'no hooks are needed: checks drive the unmodified code in-process (PYTHONPATH=/repo) and substitute module globals from outside',
            'baseline_off_cmd': 'cd /repo && /venv/bin/python -m pytest -ra -q -p no:cacheprovider --timeout=900 --continue-on-collection-errors',
            'source_commits': [],
            'add_only': True,
        },
        'engines': [{'name': e, 'path': '/verif/lean', 'serves_properties': sorted(k for k, v in claimed.items() if v['engine'] == e),
                     'kind_free_text': ENGINES[e]} for e in used],
        'checks': checks,
        'notes': ('Every check: proof gate (lake build, hygiene grep, #print axioms of every theorem in CV/Props/<id>.lean) + '
                  'differential correspondence model vs. implementation + spec predicates on the implementation. Repairs of genuine '
                  'defects are unguarded fix: commits in /repo, listed in known_findings.json as fixed entries.'),
        'not_applicable': [{'property_id': p['id'],
                            'reason': 'check not built yet (work in progress; the technique applies, see DESIGN.md section 6)'}
                           for p in props if p['id'] not in claimed],
    }
    json.dump(m, open(os.path.join(HERE, 'MANIFEST.json'), 'w'), indent=1)
    print('claimed', sorted(claimed), 'unclaimed', [x['property_id'] for x in m['not_applicable']])


if __name__ == '__main__':
    main()

import sys, json, random, copy
import os; sys.path.insert(0, os.path.join(os.path.dirname(os.path.dirname(os.path.abspath(__file__))), 'harness'))
import framework
framework.setup_import_path()
import core_dsl, core_gen
class C: pass
ctx=C(); ctx.driver=framework.Driver()
feats=set(sys.argv[1].split(',')); seed=int(sys.argv[2]); n=int(sys.argv[3])
rng=random.Random(seed)
scs=[core_gen.gen_scenario(rng,feats) for _ in range(n)]
res=core_dsl.run_both(ctx,scs)
bad=[r['sc'] for r in res if core_dsl.compare(r)]
def fails(sc):
    try:
        r=core_dsl.run_both(ctx,[sc])[0]
        d=core_dsl.compare(r)
        return d is not None and d['where']!='harness'
    except Exception as e:
        return False
sc=bad[int(sys.argv[4]) if len(sys.argv)>4 else 0]
changed=True
while changed:
    changed=False
    for i in range(len(sc['ops'])-1,-1,-1):
        c=copy.deepcopy(sc); del c['ops'][i]
        if fails(c): sc=c; changed=True
    for pi in range(len(sc['progs'])):
        for ai in range(len(sc['progs'][pi])-1,-1,-1):
            c=copy.deepcopy(sc); del c['progs'][pi][ai]
            if fails(c): sc=c; changed=True
    for ci in range(len(sc['comps'])):
        for hi in range(len(sc['comps'][ci]['handlers'])):
            h=sc['comps'][ci]['handlers'][hi]
            if sc['progs'][h['prog']] or h['names']!=['1'] :
                c=copy.deepcopy(sc); c['comps'][ci]['handlers'][hi].update({'prio':0,'chan':None})
                if c!=sc and fails(c): sc=c; changed=True
    for t in range(len(sc['tmpls'])):
        c=copy.deepcopy(sc); c['tmpls'][t].update({'flags':'','sc':None,'cc':None})
        if c!=sc and fails(c): sc=c; changed=True
used=set()
print(json.dumps(sc))
r=core_dsl.run_both(ctx,[sc])[0]
print(core_dsl.compare(r))
for (a,b) in zip(r['impl'],r['model']): print('IMPL ',a); print('MODEL',b)

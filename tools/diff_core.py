"""
Model-against-model check: the big-step core machine (`cvdriver core`, CV/Model/Core/Machine.lean)
and the small-step one (`cvdriver core2`, CV/Model/Core/Step.lean) must give identical answers,
line by line, to identical op lines.

usage:  /venv/bin/python tools/diff_core.py [n=5000] [seed=1] [show=3]

For each of n random scenarios (core_gen: two thirds `gen_scenario` with random feature subsets,
one third `gen_run_scenario`) the real circuits code is run once to obtain the concrete ops and
the choice tape; then the same lines are fed to both machines in three variants:
  tape    the implementation's log as tape (what the harness does)
  notape  no tape at all (both models make their default choices)
  cut     the tape cut off at a random position (choices switch to defaults mid-run)
  wild    no tape, and random extra op lines (register / unregister / setexec / run / stop / exit / …)
          inserted among the ops, to reach the exception paths (`blocked`, `unregistrable`, nested exits)
The two models count fuel differently (recursion depth / steps): from an `exn fuel` answer of either
model on, the rest of that case is not compared (counted as `fuel-cut`).
Every answer line (setup, ops incl. the complete logs and exceptions, tree, values, residue) is compared.
Prints `scenarios <n> cases <4n> lines <k> differences <d>`; exit code 1 if d > 0.
"""
import sys, os, random
from collections import Counter
sys.path.insert(0, os.path.join(os.path.dirname(os.path.dirname(os.path.abspath(__file__))), 'harness'))
import framework
framework.setup_import_path()
import core_dsl, core_gen

ALL = ['tree', 'chan', 'prio', 'stop', 'values', 'gen', 'call', 'flags', 'cancel', 'flushact', 'catchall',
       'dynh', 'structural', 'genfire', 'timeout']
RUN_SETS = [['prio', 'values', 'timers', 'gen'], ['prio', 'values', 'gen', 'call', 'timeout', 'flags']]


def scenario(rng, i):
    if i % 3 == 2:
        return core_gen.gen_run_scenario(rng, set(RUN_SETS[(i // 3) % 2]))
    feats = set(ALL[:14]) if rng.random() < 0.5 else {f for f in ALL if rng.random() < 0.6}
    return core_gen.gen_scenario(rng, feats)


def wild_ops(rng, sc, k):
    nc = len(sc['comps'])
    nt = max(1, len(sc['tmpls']))
    c = lambda: rng.randrange(nc)

    def reg():      # parent index <= child index: the tree stays acyclic (a cycle makes the big-step model explode)
        x = c()
        return f'do {c()} reg {x} {rng.randint(0, x)}'
    code = lambda: rng.choice(['~', '0', '3'])
    out = []
    for _ in range(k):
        out.append(rng.choice([
            reg, reg, lambda: f'do {c()} unreg {c()}',
            lambda: f'setexec {c()} {rng.randint(0, 1)}', lambda: f'run {c()}', lambda: f'tick {c()}',
            lambda: f'flush {c()}', lambda: f'do {c()} stopMgr {c()} {code()}', lambda: f'do {c()} sysExit {code()}',
            lambda: f'do {c()} kbdInt', lambda: f'do {c()} raise', lambda: f'do {c()} flush',
            lambda: f'do {c()} timerNew 0', lambda: f'do {c()} fire {rng.randrange(nt)} ~ 0 0',
            lambda: f'adv {rng.randint(1, 20)}', lambda: f'do {c()} rmH {rng.randrange(8)} ~',
            lambda: f'do {c()} addH {rng.randrange(8)}'])())
    return out


def main():
    n = int(sys.argv[1]) if len(sys.argv) > 1 else 5000
    seed = int(sys.argv[2]) if len(sys.argv) > 2 else 1
    show = int(sys.argv[3]) if len(sys.argv) > 3 else 3
    rng = random.Random(seed)
    drv = framework.Driver()
    cases, meta = [], []
    skipped = 0
    for i in range(n):
        sc = scenario(rng, i)
        w = core_dsl.World(sc)
        try:
            w.run()
        except Exception:           # harness problem: still usable, with whatever ops were executed
            skipped += 1
        ops = getattr(w, 'ops', [])
        lines, first = core_dsl.model_lines(sc, w.log, ops)
        tape = [l for l in lines if l.startswith('tape ')]
        other_head = [l for l in lines[:first] if not l.startswith('tape ')]
        tail = lines[first:]
        cut = rng.randint(0, len(tape)) if tape else 0
        for kind, tp in (('tape', tape), ('notape', []), ('cut', tape[:cut])):
            cases.append(other_head + tp + tail)
            meta.append((i, kind))
        body = tail[:-3]
        for ln in wild_ops(rng, sc, rng.randint(1, 6)):
            body.insert(rng.randint(0, len(body)), ln)
        # small fuel: a `run` that never stops must not take minutes
        cases.append([l for l in other_head if not l.startswith('fuel ')] + ['fuel 150'] + body + tail[-3:])
        meta.append((i, 'wild'))
    total = diffs = 0
    kinds = Counter()
    CH = 600
    for a in range(0, len(cases), CH):
        chunk = cases[a:a + CH]
        r1 = drv.batch('core', chunk)
        r2 = drv.batch('core2', chunk)
        for j, (x, y) in enumerate(zip(r1, r2)):
            for ln, (p, q) in enumerate(zip(x, y)):
                if p.startswith('exn fuel') or q.startswith('exn fuel'):
                    kinds['fuel-cut'] += 1
                    break
                total += 1
                if p.startswith('exn '):
                    kinds[' '.join(p.split(' ')[:2])] += 1
                elif p.startswith('ok |'):
                    kinds['ok'] += 1
                if p != q:
                    diffs += 1
                    if diffs <= show:
                        k = next((t for t, (u, v) in enumerate(zip(p, q)) if u != v), min(len(p), len(q)))
                        print('DIFF scenario', meta[a + j], 'line', ln, repr(chunk[j][ln]))
                        print('  core :', p[max(0, k - 80):k + 120])
                        print('  core2:', q[max(0, k - 80):k + 120])
    print('op answers by kind (core):', dict(kinds))
    print('scenarios', n, 'cases', len(cases), 'lines', total, 'differences', diffs, 'impl-errors', skipped)
    sys.exit(1 if diffs else 0)


if __name__ == '__main__':
    main()

#!/usr/bin/env python3
"""For every `fixed` entry of known_findings.json: revert that fix in a scratch worktree of /repo and run the
property's quick check against it; the check must report a VIOLATION (exit 1).  Results -> seeded/revert_drill.json"""
import json
import os
import subprocess
import sys

HERE = os.path.dirname(os.path.dirname(os.path.abspath(__file__)))
kf = json.load(open(os.path.join(HERE, 'known_findings.json')))
only = set(sys.argv[1:])
res = []
wt = '/tmp/rv-drill'
for f in kf['fixed']:
    prop, commit = f['property'], f['commit']
    if only and prop not in only:
        continue
    subprocess.run(['git', '-C', '/repo', 'worktree', 'remove', '--force', wt], capture_output=True)
    subprocess.run(['git', '-C', '/repo', 'worktree', 'add', '--detach', wt, 'HEAD'], capture_output=True, check=True)
    r = subprocess.run(['git', '-C', wt, 'revert', '--no-commit', commit], capture_output=True, text=True)
    if r.returncode != 0:
        res.append({'property': prop, 'commit': commit, 'result': 'revert-conflict'})
        print(prop, commit, 'revert-conflict')
        continue
    env = dict(os.environ, VERIF_REPO=wt, VERIF_SEED='0')
    p = subprocess.run([os.path.join(HERE, 'check'), prop, '--tier', 'quick'], capture_output=True, text=True, env=env, cwd=HERE)
    viol = [l for l in p.stdout.splitlines() if l.startswith('VIOLATION')]
    sigs = []
    for l in viol:
        path = l.split('replay=')[1].split()[0]
        try:
            sigs.append(json.load(open(path)).get('signature'))
        except Exception:
            pass
    res.append({'property': prop, 'commit': commit, 'what': f['what'], 'exit': p.returncode, 'violations': len(viol), 'signatures': sigs[:6]})
    print(prop, commit, 'exit', p.returncode, sigs[:4], flush=True)
subprocess.run(['git', '-C', '/repo', 'worktree', 'remove', '--force', wt], capture_output=True)
os.makedirs(os.path.join(HERE, 'seeded'), exist_ok=True)
out = os.path.join(HERE, 'seeded', 'revert_drill.json')
old = []
if only and os.path.exists(out):
    old = [x for x in json.load(open(out)) if x['property'] not in only]
json.dump(old + res, open(out, 'w'), indent=1)
# evidence files were rewritten against the scratch tree: the caller re-runs the checks on /repo afterwards

import sys, json, random
import os; sys.path.insert(0, os.path.join(os.path.dirname(os.path.dirname(os.path.abspath(__file__))), 'harness'))
import framework
framework.setup_import_path()
import core_dsl, core_gen
class C: pass
ctx=C(); ctx.driver=framework.Driver()
feats=set(sys.argv[1].split(','))
seed=int(sys.argv[2]); n=int(sys.argv[3])
rng=random.Random(seed)
scs=[core_gen.gen_scenario(rng,feats) for _ in range(n)]
res=core_dsl.run_both(ctx,scs)
bad=0; blocked=0
from collections import Counter
cnt=Counter()
for r in res:
    if r.get('blocked'): blocked+=1
    d=core_dsl.compare(r)
    if d:
        bad+=1; cnt[d['where']]+=1
        if bad<=int(sys.argv[4]) if len(sys.argv)>4 else 3:
            print(json.dumps(d)[:1500]); print(json.dumps(r['sc'])[:3000]); print(getattr(r['world'],'ops',None))
print('scenarios',n,'bad',bad,'blocked',blocked,dict(cnt), 'avg log', sum(len(r['world'].log) for r in res)/n)

#!/usr/bin/env python3
"""seed_eval.py <Cxx> <dir with patch.diff demo.py notes.md> [name]
Confirms a seeded change (demo passes on clean tree, fails with the patch, relevant tests still pass), then applies it to
/repo, runs the property's quick check, restores /repo, and files the result under /verif/seeded/<name>/."""
import json
import os
import shutil
import subprocess
import sys

HERE = os.path.dirname(os.path.dirname(os.path.abspath(__file__)))
prop, src = sys.argv[1], os.path.abspath(sys.argv[2])
name = sys.argv[3] if len(sys.argv) > 3 else f'{prop}-a'
patch = os.path.join(src, 'patch.diff')
demo = os.path.join(src, 'demo.py')
wt = f'/tmp/sv-{name}'


def sh(cmd, **kw):
    try:
        return subprocess.run(cmd, capture_output=True, text=True, **kw)
    except subprocess.TimeoutExpired as e:
        class R:
            returncode = 124
            stdout = (e.stdout or b'').decode() if isinstance(e.stdout, bytes) else (e.stdout or '')
            stderr = 'TIMEOUT'
        return R()


sh(['git', '-C', '/repo', 'worktree', 'remove', '--force', wt])
sh(['git', '-C', '/repo', 'worktree', 'add', '--detach', wt, 'HEAD'])
meta = {'property': prop, 'name': name}
env = dict(os.environ, PYTHONPATH=wt)
r0 = sh(['/venv/bin/python', demo], cwd=wt, env=env, timeout=120)
meta['demo_clean_exit'] = r0.returncode
ap = sh(['git', '-C', wt, 'apply', patch])
meta['patch_applies'] = ap.returncode == 0
files = [l.split()[-1] for l in sh(['git', '-C', wt, 'diff', '--stat']).stdout.splitlines() if '|' in l]
files = [l.split('|')[0].strip() for l in sh(['git', '-C', wt, 'diff', '--stat']).stdout.splitlines() if '|' in l]
meta['files'] = files
r1 = sh(['/venv/bin/python', demo], cwd=wt, env=env, timeout=120)
meta['demo_patched_exit'] = r1.returncode
meta['demo_patched_tail'] = (r1.stdout + r1.stderr)[-300:]
dirs = set()
for f in files:
    for key, d in (('circuits/core', 'tests/core'), ('circuits/web', 'tests/web'), ('circuits/net', 'tests/net'),
                   ('circuits/io', 'tests/io'), ('circuits/node', 'tests/node'), ('circuits/protocols', 'tests/protocols'),
                   ('circuits/tools', 'tests/tools')):
        if f.startswith(key):
            dirs.add(d)
    if f.startswith('circuits/core'):
        dirs.update(['tests/web', 'tests/net', 'tests/node', 'tests/io', 'tests/app'])
    if f.startswith('circuits/protocols/websocket') or f.startswith('circuits/protocols/http'):
        dirs.add('tests/web')
    if f.startswith('circuits/net') or f.startswith('circuits/io'):
        dirs.update(['tests/web', 'tests/node'])
prev = None
try:
    prev = json.load(open(os.path.join(HERE, 'seeded', name, 'meta.json')))
except Exception:
    pass
REUSE = bool(prev and prev.get('tests_pass') and os.path.abspath(os.path.join(HERE, 'seeded', name)) == src)
if REUSE:
    class t:
        returncode = 0
        stdout = prev.get('tests_tail', '') + ' (reused from first evaluation; patch unchanged)'
else:
  t = sh(['/venv/bin/python', '-m', 'pytest', '-q', '-p', 'no:cacheprovider', '--timeout=180',
        '--deselect', 'tests/net/test_tcp.py::test_tcp_lookup_failure', '--deselect', 'tests/core/test_signals.py',
        '--deselect', 'tests/app/test_daemon.py', '--deselect', 'tests/core/test_bridge.py', '-x'] + sorted(dirs), cwd=wt, timeout=900)
if t.returncode != 0:
    print('first test run failed:', [l for l in t.stdout.splitlines() if l.startswith('FAILED')])
    # load-sensitive tests: one retry of the failures only
    t = sh(['/venv/bin/python', '-m', 'pytest', '-q', '--timeout=180', '--lf',
            '--deselect', 'tests/net/test_tcp.py::test_tcp_lookup_failure', '--deselect', 'tests/core/test_signals.py',
            '--deselect', 'tests/app/test_daemon.py', '--deselect', 'tests/core/test_bridge.py'] + sorted(dirs), cwd=wt, timeout=900)
meta['tests_run'] = sorted(dirs)
meta['tests_tail'] = t.stdout.strip().splitlines()[-1] if t.stdout.strip() else ''
meta['tests_pass'] = t.returncode == 0
sh(['git', '-C', '/repo', 'worktree', 'remove', '--force', wt])
valid = meta['demo_clean_exit'] == 0 and meta['patch_applies'] and meta['demo_patched_exit'] == 1 and meta['tests_pass']
meta['valid'] = valid
if valid:
    st = sh(['git', '-C', '/repo', 'status', '--porcelain']).stdout.strip()
    if st:
        print('refusing: /repo not clean', st)
        sys.exit(2)
    try:
        sh(['git', '-C', '/repo', 'apply', patch])
        c = sh([os.path.join(HERE, 'check'), prop, '--tier', 'quick'], cwd=HERE, env=dict(os.environ, VERIF_SEED='0'), timeout=3000)
        meta['check_exit'] = c.returncode
        sigs = []
        for l in c.stdout.splitlines():
            if l.startswith('VIOLATION'):
                pth = l.split('replay=')[1].split()[0]
                try:
                    sigs.append(json.load(open(pth)).get('signature'))
                except Exception:
                    sigs.append('?')
        meta['check_signatures'] = sigs
        meta['check_tail'] = c.stdout.strip().splitlines()[-8:]
    finally:
        sh(['git', '-C', '/repo', 'checkout', '--', '.'])
    # restore the evidence of the clean tree
    sh([os.path.join(HERE, 'check'), prop, '--tier', 'quick'], cwd=HERE, env=dict(os.environ, VERIF_SEED='0'), timeout=3000)
    out = os.path.join(HERE, 'seeded', name)
    os.makedirs(out, exist_ok=True)
    if os.path.abspath(out) != src:
        shutil.copy(patch, os.path.join(out, 'patch.diff'))
        shutil.copy(demo, os.path.join(out, 'demo.py'))
    if os.path.abspath(out) != src and os.path.exists(os.path.join(src, 'notes.md')):
        shutil.copy(os.path.join(src, 'notes.md'), os.path.join(out, 'notes.md'))
    meta['ran'] = ['demo on clean worktree (exit 0)', 'demo with patch (exit 1)', f"pytest {' '.join(sorted(dirs))} with patch",
                   f'./check {prop} --tier quick with the patch applied to /repo, then git checkout -- .']
    json.dump(meta, open(os.path.join(out, 'meta.json'), 'w'), indent=1)
print(json.dumps(meta, indent=1))
